"""Verification harness for CNES/Pandora (model-based, TLA+ / TLC)."""
