"""Construction of real Pandora inputs from abstract ones (datasets, configurations, stub plugins)."""
from __future__ import annotations

import copy

import numpy as np
import xarray as xr

KINDS = ["matching_cost", "aggregation", "optimization", "semantic_segmentation", "cost_volume_confidence",
         "disparity", "filter", "refinement", "validation", "multiscale"]

DEFAULT_STEP_CFG = {
    "matching_cost": {"matching_cost_method": "sad", "window_size": 1, "subpix": 1},
    "aggregation": {"aggregation_method": "cbca"},
    "optimization": {"optimization_method": "vp_stub"},
    "semantic_segmentation": {"segmentation_method": "vp_stub", "RGB_bands": None},
    "cost_volume_confidence": {"confidence_method": "std_intensity"},
    "disparity": {"disparity_method": "wta", "invalid_disparity": -9999},
    "filter": {"filter_method": "median", "filter_size": 3},
    "refinement": {"refinement_method": "vfit"},
    "validation": {"validation_method": "cross_checking_accurate"},
    "multiscale": {"multiscale_method": "fixed_zoom_pyramid", "num_scales": 2, "scale_factor": 2},
}
METHOD_KEY = {
    "matching_cost": "matching_cost_method", "aggregation": "aggregation_method",
    "optimization": "optimization_method", "semantic_segmentation": "segmentation_method",
    "cost_volume_confidence": "confidence_method", "disparity": "disparity_method", "filter": "filter_method",
    "refinement": "refinement_method", "validation": "validation_method", "multiscale": "multiscale_method",
}

_STUBS_DONE = False


def register_stubs():
    """optimization and semantic_segmentation have no built-in method (plugins only): register identity stubs so
    that the machine's transitions for these two kinds can be exercised on the real machine."""
    global _STUBS_DONE  # pylint: disable=global-statement
    if _STUBS_DONE:
        return
    from pandora import optimization, semantic_segmentation

    @optimization.AbstractOptimization.register_subclass("vp_stub")
    class StubOptimization(optimization.AbstractOptimization):  # pylint: disable=unused-variable
        def __init__(self, _img, **cfg):
            self.cfg = dict(cfg)

        def desc(self):
            pass

        def optimize_cv(self, cv, img_left, img_right):
            return cv

    @semantic_segmentation.AbstractSemanticSegmentation.register_subclass("vp_stub")
    class StubSegmentation(semantic_segmentation.AbstractSemanticSegmentation):  # pylint: disable=unused-variable
        def __init__(self, _img, **cfg):
            self.cfg = dict(cfg)

        def desc(self):
            pass

        def compute_semantic_segmentation(self, cv, img_left, img_right):
            return img_left

    _STUBS_DONE = True


def make_image(data, *, mask=None, disp=None, bands=None, row0=0, col0=0, disparity_source="auto",
               attrs=None) -> xr.Dataset:
    """A dataset shaped like the output of create_dataset_from_inputs.
    data: 2D (row, col) or 3D (band, row, col) array; mask: 2D int16 (0 valid, 1 nodata, other invalid) or None;
    disp: None | (min, max) scalars | (min_grid, max_grid)."""
    data = np.asarray(data, dtype=np.float32)
    if data.ndim == 2:
        rows, cols = data.shape
        ds = xr.Dataset({"im": (["row", "col"], data.copy())},
                        coords={"row": np.arange(row0, row0 + rows), "col": np.arange(col0, col0 + cols)})
    else:
        _, rows, cols = data.shape
        ds = xr.Dataset({"im": (["band_im", "row", "col"], data.copy())},
                        coords={"band_im": list(bands), "row": np.arange(row0, row0 + rows),
                                "col": np.arange(col0, col0 + cols)})
    ds.attrs.update({"crs": None, "transform": None, "valid_pixels": 0, "no_data_mask": 1, "no_data_img": -9999})
    src = None
    if disp is not None:
        dmin, dmax = disp
        ds.coords["band_disp"] = ["min", "max"]
        if np.ndim(dmin) == 0:
            arr = np.array([np.full((rows, cols), dmin), np.full((rows, cols), dmax)])
            src = [int(dmin), int(dmax)]
        else:
            arr = np.array([np.asarray(dmin), np.asarray(dmax)]).astype(np.float32)
            src = "grid.tif"
        ds["disparity"] = xr.DataArray(arr, dims=["band_disp", "row", "col"])
    ds.attrs["disparity_source"] = src if disparity_source == "auto" else disparity_source
    if mask is not None:
        ds["msk"] = xr.DataArray(np.asarray(mask, dtype=np.int16).copy(), dims=["row", "col"])
    if attrs:
        ds.attrs.update(attrs)
    return ds


def make_metadata(rows, cols, *, bands=None, disp=(-1, 1)) -> xr.Dataset:
    """A dataset shaped like the output of get_metadata (what check_conf receives)."""
    ds = xr.Dataset(data_vars={}, coords={"band_im": list(bands) if bands else [None],
                                          "row": np.arange(rows), "col": np.arange(cols)})
    if disp is not None:
        ds.coords["band_disp"] = ["min", "max"]
        ds["disparity"] = xr.DataArray(np.array([np.full((rows, cols), disp[0]), np.full((rows, cols), disp[1])]),
                                       dims=["band_disp", "row", "col"])
    ds.attrs["disparity_source"] = list(disp) if disp is not None else None
    return ds


SUFFIX_STYLES = ["{n}", "v{n}.1", "a.b.{n}", "x{n}", "pre_multiscale{n}", "validation{n}"]   # (a suffix may spell another kind)


def step_names(kinds, first_suffix=False, suffix_at=(), style=0):
    """Unique dictionary keys for a sequence of kinds: the 2nd, 3rd... occurrence of a kind gets a '.xxx' suffix
    (with first_suffix / suffix_at the first occurrence gets one as well). The suffix text rotates through
    SUFFIX_STYLES (some contain dots themselves: the kind is the text before the FIRST '.').
    Returns [(name, kind, sfx)], sfx = -1 for none."""
    seen = {}
    out = []
    for k in kinds:
        n = seen.get(k, 0)
        seen[k] = n + 1
        if n == 0 and not first_suffix and len(out) not in suffix_at:
            out.append((k, k, -1))
        else:
            sfx = SUFFIX_STYLES[(style + n + len(out)) % len(SUFFIX_STYLES)].format(n=n)
            out.append((f"{k}.{sfx}", k, n))
    return out


def pipeline_cfg(kinds, *, first_suffix=False, bad=None, overrides=None, suffix_at=(), style=0):
    """{"pipeline": {...}} for a sequence of kinds with valid default parameters; `bad` = index (0-based) of a
    step whose method name is unknown; overrides: {index: dict} merged into the step's configuration."""
    names = step_names(kinds, first_suffix, suffix_at, style)
    pipe = {}
    for i, (name, kind, _) in enumerate(names):
        c = copy.deepcopy(DEFAULT_STEP_CFG[kind])
        if overrides and i in overrides:
            c.update(overrides[i])
            if "filter_method" in overrides[i] and overrides[i]["filter_method"] == "bilateral":
                c.pop("filter_size", None)
        if bad is not None and i == bad:
            c[METHOD_KEY[kind]] = "vp_no_such_method"
        pipe[name] = c
    return {"pipeline": pipe}, names


def make_cv(costs, *, dmin, subpix=1, type_measure="min", window_size=1, vm=None, conf=None, row0=0, col0=0,
            cmax=100, measure="sad", conf_dtype=np.float32, cv_dtype=np.float32) -> xr.Dataset:
    """A cost-volume dataset shaped like the output of the matching_cost step.
    costs: (row, col, nd) float array; samples are dmin + k/subpix; conf: (names, (row, col, n) array)."""
    costs = np.asarray(costs, dtype=cv_dtype)
    rows, cols, nd = costs.shape
    disp = dmin + np.arange(nd) / float(subpix) if subpix != 1 else np.arange(dmin, dmin + nd)
    cv = xr.Dataset({"cost_volume": (["row", "col", "disp"], costs.copy())},
                    coords={"row": np.arange(row0, row0 + rows), "col": np.arange(col0, col0 + cols), "disp": disp})
    cv["validity_mask"] = xr.DataArray(np.zeros((rows, cols), dtype=np.uint16) if vm is None
                                       else np.asarray(vm).astype(np.uint16).copy(), dims=["row", "col"])
    if conf is not None:
        names, arr = conf
        cv.coords["indicator"] = list(names)
        cv["confidence_measure"] = xr.DataArray(np.asarray(arr, dtype=conf_dtype).copy(), dims=["row", "col", "indicator"])
    cv.attrs.update({"crs": None, "transform": None, "valid_pixels": 0, "no_data_mask": 1, "no_data_img": -9999,
                     "window_size": window_size, "subpixel": subpix, "band_correl": None,
                     "offset_row_col": int((window_size - 1) / 2), "measure": measure, "type_measure": type_measure,
                     "cmax": cmax, "sampling_interval": 1, "col_to_compute": np.arange(col0, col0 + cols)})
    return cv


def make_disp(disp, *, vm=None, dmin=-2, dmax=2, window_size=1, conf=None, row0=0, col0=0, subpix=1,
              type_measure="min") -> xr.Dataset:
    """A disparity dataset shaped like the output of the disparity step."""
    disp = np.asarray(disp, dtype=np.float32)
    rows, cols = disp.shape
    ds = xr.Dataset({"disparity_map": (["row", "col"], disp.copy())},
                    coords={"row": np.arange(row0, row0 + rows), "col": np.arange(col0, col0 + cols)})
    ds["validity_mask"] = xr.DataArray(np.zeros((rows, cols), dtype=np.uint16) if vm is None
                                       else np.asarray(vm).astype(np.uint16).copy(), dims=["row", "col"])
    ds["disparity_interval"] = xr.DataArray(np.array([dmin, dmax]), coords=[("disparity", ["min", "max"])])
    if conf is not None:
        names, arr = conf
        ds.coords["indicator"] = list(names)
        ds["confidence_measure"] = xr.DataArray(np.asarray(arr, dtype=np.float32).copy(), dims=["row", "col", "indicator"])
    ds.attrs.update({"crs": None, "transform": None, "valid_pixels": 0, "no_data_mask": 1, "no_data_img": -9999,
                     "window_size": window_size, "subpixel": subpix, "band_correl": None,
                     "offset_row_col": int((window_size - 1) / 2), "measure": "sad", "type_measure": type_measure,
                     "cmax": 100, "sampling_interval": 1, "col_to_compute": np.arange(col0, col0 + cols)})
    return ds


def write_tif(path, data, *, dtype=None, descriptions=None, crs=None, transform=None):
    """Writes a GeoTIFF with rasterio. data: (rows, cols) or (bands, rows, cols)."""
    import warnings
    import rasterio
    data = np.asarray(data)
    if data.ndim == 2:
        data = data[np.newaxis]
    if dtype is None:
        dtype = data.dtype
    prof = {"driver": "GTiff", "height": data.shape[1], "width": data.shape[2], "count": data.shape[0], "dtype": np.dtype(dtype).name}
    if crs is not None:
        prof["crs"] = crs
        prof["transform"] = transform
    with warnings.catch_warnings():
        warnings.simplefilter("ignore")
        with rasterio.open(str(path), "w", **prof) as dst:
            dst.write(data.astype(dtype))
            if descriptions is not None:
                for i, d in enumerate(descriptions):
                    dst.set_band_description(i + 1, d)
    return str(path)
