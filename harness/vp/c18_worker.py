"""Runs a fixed, seeded set of (pipeline, input) problems in THIS process and prints one JSON line with the digests of all
products.  Started by the C18 driver in fresh processes with different NUMBA_NUM_THREADS / PANDORA_NUMBA_PARALLEL."""
import hashlib
import json
import sys

import numpy as np


def digest(ds, only=None):
    h = hashlib.sha256()
    if ds is None:
        return "none"
    for v in sorted(ds.data_vars):
        if only and v not in only:
            continue
        a = np.ascontiguousarray(ds[v].data)
        h.update(v.encode())
        h.update(str(a.dtype).encode())
        h.update(str(a.shape).encode())
        h.update(a.tobytes())
    if "indicator" in ds.coords and not only:
        h.update(",".join(map(str, ds.coords["indicator"].data)).encode())
    return h.hexdigest()[:24]


def problems(seed, n):
    from vp import dataplane as dp
    rng = np.random.RandomState(seed)
    out = []
    for k in range(n):
        measure = ["sad", "census", "zncc", "ssd"][k % 4]
        win = 3 if measure in ("census", "zncc") else [1, 3][k % 2]
        s = [1, 2, 4][k % 3]
        prob = dp.gen_problem(rng, rows=win + 18 + k % 5, cols=win + 30 + k % 7, win=win, s=s, measure=measure, disp=(-3, 2), vmax=60,
                              mask_mode=["none", "both"][k % 2])
        pipes = pipelines(prob, k)
        out.append((prob, pipes))
    return out


def pipelines(prob, k):
    from vp import dataplane as dp
    mc = ("matching_cost", dp.mc_cfg(prob))
    wta = ("disparity", {"disparity_method": "wta", "invalid_disparity": [-9999, "NaN"][k % 2]})
    return {
        "plain": [mc, wta, ("refinement", {"refinement_method": "vfit"}), ("filter", {"filter_method": "median"})],
        "conf": [mc, ("cost_volume_confidence", {"confidence_method": "ambiguity"}), ("cost_volume_confidence.r", {"confidence_method": "risk"}),
                 ("cost_volume_confidence.i", {"confidence_method": "interval_bounds"}), wta, ("refinement", {"refinement_method": "quadratic"})],
        "bil20": [mc, wta, ("filter", {"filter_method": "bilateral", "sigma_space": 2.0, "sigma_color": 2.0})],
        "bil23": [mc, wta, ("filter", {"filter_method": "bilateral", "sigma_space": 2.3, "sigma_color": 2.0})],
        "cbca_val": [mc, ("aggregation", {"aggregation_method": "cbca", "cbca_distance": 3}), wta, ("refinement", {"refinement_method": "vfit"}),
                     ("validation", {"validation_method": "cross_checking_accurate", "interpolated_disparity": "mc-cnn"})],
        "sgm_val": [mc, wta, ("validation", {"validation_method": "cross_checking_accurate", "interpolated_disparity": "sgm"})],
        "val_sfx": [mc, wta, ("validation.xc", {"validation_method": "cross_checking_accurate"}), ("filter", {"filter_method": "median"})],
        "ms": [mc, wta, ("multiscale", {"multiscale_method": "fixed_zoom_pyramid", "num_scales": 2, "scale_factor": 2}),
               ("filter", {"filter_method": "median"})],
        "mfi": [mc, ("cost_volume_confidence", {"confidence_method": "ambiguity"}), ("cost_volume_confidence.1", {"confidence_method": "interval_bounds"}),
                wta, ("filter", {"filter_method": "median_for_intervals", "interval_indicator": "1", "regularization": True, "vertical_depth": 1})],
    }


def run_one(prob, steps, machine=None):
    import pandora
    from pandora.state_machine import PandoraMachine
    from vp import dataplane as dp
    left, right = dp.make_datasets(prob)
    m = machine or PandoraMachine()
    l, r = pandora.run(m, left, right, {"pipeline": {nm: dict(c) for nm, c in steps}})
    return l, r, left, right


def main():
    seed, n = int(sys.argv[1]), int(sys.argv[2])
    res = {}
    import os
    for i, (prob, pipes) in enumerate(problems(seed, n)):
        items = list(pipes.items())
        if os.environ.get("C18_ORDER") == "reverse":      # the order in which pipelines run in one process must not matter
            items = items[::-1]
        for name, steps in items:
            try:
                l, r, _, _ = run_one(prob, steps)
                res[f"{i}:{name}"] = {"all": digest(l) + digest(r if len(r.data_vars) else None),
                                      "disp_flags": digest(l, only=("disparity_map", "validity_mask"))}
            except Exception as exc:  # pylint: disable=broad-except
                res[f"{i}:{name}"] = {"all": "EXC:" + type(exc).__name__, "disp_flags": "EXC:" + type(exc).__name__}
    print("C18WORKER " + json.dumps(res))


if __name__ == "__main__":
    main()
