"""Core of the verification harness: TLC runner, evidence writer, findings protocol.

Every check is one Python process (`bin/check <ID> <tier>`): it drives the real Pandora
code from /repo's working tree, records traces, has TLC decide them against the TLA+
specification under /verif/spec, and writes /verif/evidence/<ID>.json.

Exit codes: 0 property held (possibly KNOWN-FINDING lines), 1 violation, 2 machinery failure.
"""
from __future__ import annotations

import hashlib
import json
import os
import re
import shutil
import subprocess
import sys
import time
from pathlib import Path

VERIF = Path(__file__).resolve().parents[2]
SPEC = VERIF / "spec"
EVID = VERIF / "evidence"
WORK = VERIF / ".work"
TLA_CP = "/opt/veriftools/tla/tla2tools.jar:/opt/veriftools/tla/CommunityModules-deps.jar"

LEVELS = {"exploration", "fault_enumeration", "model_checking", "proof", "translation_validation", "other"}


class MachineryFailure(Exception):
    """The checking machinery itself failed (never reported as a violation)."""


def seed() -> int:
    try:
        return int(os.environ.get("VERIF_SEED", "0"))
    except ValueError:
        return 0


class TLCResult:
    def __init__(self, out: str, rc: int):
        self.out = out
        self.rc = rc
        self.generated = 0
        self.distinct = 0
        self.depth = 0
        m = None
        for m in re.finditer(r"(\d+) states generated, (\d+) distinct states found", out):
            pass
        if m:
            self.generated, self.distinct = int(m.group(1)), int(m.group(2))
        m = re.search(r"depth of the complete state graph search is (\d+)", out)
        if m:
            self.depth = int(m.group(1))
        self.invariant_violations = re.findall(r"Error: Invariant (\S+) is violated", out)
        self.property_violations = re.findall(r"Error: Action property (\S+) is violated", out)
        self.temporal = "Temporal properties were violated" in out
        self.deadlock = "Deadlock reached" in out
        self.assume_fail = re.findall(r"Assumption line (\d+), col \d+ to line \d+, col \d+ of module (\S+) is false", out)
        self.completed = "Model checking completed. No error has been found." in out or "Finished in" in out
        self.errors = [l for l in out.splitlines() if l.startswith("Error:")]
        self.printed = parse_printed(out)
        self.coverage = parse_coverage(out)

    @property
    def ok(self) -> bool:
        return getattr(self, "_forced_ok", False) or (
            "Model checking completed. No error has been found." in self.out
            and not self.errors
        )

    def trace_text(self) -> str:
        """The counterexample part of TLC's output (if any)."""
        idx = self.out.find("Error:")
        return self.out[idx:idx + 6000] if idx >= 0 else ""


def parse_printed(out: str):
    """PrintT(<<"TAG", ToJson(x)>>) lines -> list of (tag, value)."""
    res = []
    for line in out.splitlines():
        if not line.startswith('<<"'):
            continue
        m = re.match(r'^<<"([A-Za-z0-9_]+)", (.*)>>$', line)
        if not m:
            continue
        tag, rest = m.group(1), m.group(2)
        if rest.startswith('"'):
            try:
                s = json.loads(rest)  # TLA+ string escapes are JSON compatible for what ToJson emits
                try:
                    res.append((tag, json.loads(s)))
                except json.JSONDecodeError:
                    res.append((tag, s))
            except json.JSONDecodeError:
                res.append((tag, rest))
        else:
            try:
                res.append((tag, int(rest)))
            except ValueError:
                res.append((tag, rest))
    return res


def parse_coverage(out: str):
    """-coverage output: '<Action line.. of module M>: distinct:total' lines."""
    cov = {}
    for m in re.finditer(r"^<(\w+) line \d+, col \d+ to line \d+, col \d+ of module (\w+)>: (\d+):(\d+)", out, re.M):
        cov[m.group(1)] = (int(m.group(3)), int(m.group(4)))
    return cov


def run_tlc(module: str, cfg: str, *, workdir: Path, env: dict | None = None, workers: int | str = 1,
            timeout: int = 600, extra: list[str] | None = None, deadlock: bool = False,
            coverage: bool = False, simulate: str | None = None, seed_: int | None = None,
            include: list[Path] | None = None, heap: str = "4g") -> TLCResult:
    """Run TLC on spec/<module>.tla with spec/<cfg>; modules are copied into a scratch dir together with
    any generated modules in `include`."""
    workdir.mkdir(parents=True, exist_ok=True)
    for f in SPEC.glob("*.tla"):
        shutil.copy(f, workdir / f.name)
    for f in SPEC.glob("*.cfg"):
        shutil.copy(f, workdir / f.name)
    for f in include or []:
        shutil.copy(f, workdir / Path(f).name)
    meta = workdir / ("meta_%s_%d" % (module, int(time.time() * 1000) % 100000000))
    cmd = ["java", "-XX:+UseParallelGC", "-Xmx" + heap, "-Xss64m", "-cp", TLA_CP, "tlc2.TLC",
           "-workers", str(workers), "-metadir", str(meta), "-noGenerateSpecTE", "-config", cfg]
    if not deadlock:
        cmd += ["-deadlock"]  # -deadlock DISABLES deadlock checking
    if coverage:
        cmd += ["-coverage", "1"]
    if simulate:
        cmd += ["-simulate", simulate]
    if seed_ is not None:
        cmd += ["-seed", str(seed_)]
    cmd += extra or []
    cmd += [module + ".tla"]
    e = dict(os.environ)
    e.update(env or {})
    try:
        p = subprocess.run(cmd, cwd=workdir, env=e, capture_output=True, text=True, timeout=timeout)
    except subprocess.TimeoutExpired as exc:
        subprocess.run(["pkill", "-f", str(meta)], check=False)
        raise MachineryFailure(f"TLC timed out after {timeout}s on {module}/{cfg}") from exc
    finally:
        shutil.rmtree(meta, ignore_errors=True)
    out = p.stdout + "\n" + p.stderr
    (workdir / f"{module}.{cfg}.out").write_text(out)
    res = TLCResult(out, p.returncode)
    return res


def run_apalache(module: str, workdir: Path, args: list[str], include=None, timeout: int = 300):
    """apalache-mc check ... ; returns (ok, output). The module and generated includes are copied into workdir."""
    workdir.mkdir(parents=True, exist_ok=True)
    shutil.copy(SPEC / f"{module}.tla", workdir / f"{module}.tla")
    for f in include or []:
        shutil.copy(f, workdir / Path(f).name)
    cmd = ["apalache-mc", "check", f"--out-dir={workdir / 'out'}"] + args + [f"{module}.tla"]
    try:
        p = subprocess.run(cmd, cwd=workdir, capture_output=True, text=True, timeout=timeout)
    except (subprocess.TimeoutExpired, FileNotFoundError) as exc:
        raise MachineryFailure(f"apalache failed to run: {exc!r}") from exc
    out = p.stdout + p.stderr
    if "The outcome is: NoError" in out:
        return True, out
    if "The outcome is: Error" in out or "Found a violation" in out or "invariant" in out.lower() and "violat" in out.lower():
        return False, out
    raise MachineryFailure("apalache: " + "\n".join(out.splitlines()[-15:]))


def load_findings():
    f = VERIF / "known_findings.json"
    if not f.exists():
        return []
    return json.loads(f.read_text()).get("findings", [])


def _subset(pattern, record) -> bool:
    """Every key of pattern must be present in record with an equal value (lists in the pattern = any-of)."""
    for k, v in pattern.items():
        if k not in record:
            return False
        rv = record[k]
        if isinstance(v, dict) and isinstance(rv, dict):
            if not _subset(v, rv):
                return False
        elif isinstance(v, list) and not isinstance(rv, list):
            if rv not in v:
                return False
        elif rv != v:
            return False
    return True


class Check:
    """One property check run: accumulates coverage, violations, known findings, and writes the evidence."""

    def __init__(self, pid: str, tier: str, level: str = "model_checking"):
        assert level in LEVELS
        self.pid = pid
        self.tier = tier
        self.level = level
        self.seed = seed()
        self.t0 = time.time()
        self.work = WORK / f"{pid}-{tier}-{os.getpid()}"
        for stale in WORK.glob(f"{pid}-*-*"):          # work directories of runs that were killed
            try:
                owner = int(stale.name.rsplit("-", 1)[1])
                os.kill(owner, 0)
            except (ValueError, ProcessLookupError):
                shutil.rmtree(stale, ignore_errors=True)
            except PermissionError:
                pass
        if self.work.exists():
            shutil.rmtree(self.work)
        self.work.mkdir(parents=True)
        for old in (EVID / "replay").glob(f"{pid}-*.json"):  # replay files belong to one run
            old.unlink()
        self.states = 0
        self.transitions = 0
        self.traces = 0
        self.evaluations = 0
        self.nontrivial: set = set()
        self.samples: list = []
        self.rule = ""
        self.assumptions: list[str] = []
        self.extra: dict = {}
        self.violations: list[dict] = []
        self.known_hits: dict = {}
        self.findings = [f for f in load_findings() if f.get("property") == pid]
        self.tlc_runs: list[dict] = []
        self.exhaustive = False
        CURRENT.append(self)

    # ---- TLC ---------------------------------------------------------------------------------------------
    def tlc(self, module: str, cfg: str, *, label: str | None = None, expect_ok: bool = True, **kw) -> TLCResult:
        sub = self.work / (label or f"{module}_{len(self.tlc_runs)}")
        t = time.time()
        res = run_tlc(module, cfg, workdir=sub, **kw)
        self.states += res.distinct
        self.transitions += res.generated
        self.tlc_runs.append({"module": module, "cfg": cfg, "label": label, "distinct": res.distinct,
                              "generated": res.generated, "depth": res.depth, "wall_s": round(time.time() - t, 2),
                              "ok": res.ok})
        if expect_ok and not res.ok and not (res.invariant_violations or res.property_violations or res.temporal):
            tail = "\n".join(res.out.splitlines()[-40:])
            raise MachineryFailure(f"TLC failed on {module}/{cfg}:\n{tail}")
        return res

    def write_cases(self, name: str, cases: list[dict]) -> Path:
        p = self.work / name
        with open(p, "w") as f:
            for c in cases:
                f.write(json.dumps(c, separators=(",", ":")) + "\n")
        return p

    def tlc_cases(self, module: str, cfg: str, cases: list[dict], *, label: str, chunk: int = 400,
                  timeout: int = 900, parallel: int = 8, heap: str = "3g", include=None) -> dict:
        """Validate recorded cases (one JSON object per line, each with a unique 'id') with a trace specification
        that prints <<"V", {"id":..,"failed":[clauses]}>> for EVERY case. Returns id -> failed clause list.
        A case without a verdict is a machinery failure (the trace was not consumed to its end)."""
        from concurrent.futures import ThreadPoolExecutor
        ids = [c["id"] for c in cases]
        if len(set(ids)) != len(ids):
            raise MachineryFailure("duplicate case ids")
        chunks = [cases[i:i + chunk] for i in range(0, len(cases), chunk)]
        verdicts: dict = {}

        # evaluation errors that only an OBSERVED value can cause (the specification's own values are bounded by the generators and
        # every batch evaluates on the unchanged tree): numbers that do not fit, arrays that do not have the declared shape
        arith = ("Overflow when computing", "out of the range of", "Attempted to apply the operator overridden",
                 "Attempted to access index", "which is not in the domain of the function", "Attempted to select nonexistent field",
                 "Attempted to access nonexistent field", "Attempted to apply function to argument")

        def run_batch(ch, sub):
            sub.mkdir(parents=True, exist_ok=True)
            tf = sub / "cases.ndjson"
            with open(tf, "w") as f:
                for c in ch:
                    f.write(json.dumps(c, separators=(",", ":")) + "\n")
            return run_tlc(module, cfg, workdir=sub, env={"TRACE_FILE": str(tf)}, workers=1, timeout=timeout, heap=heap, include=include)

        def bisect(ch, sub, depth=0):
            """A batch on which TLC stopped with an ARITHMETIC error: the observed values of one case cannot be held by the
            specification (a NaN / not-finite / absurdly large number where every specified outcome is a small number - on the
            unchanged tree no batch does this).  The batch is split until the cases are isolated; such a case gets the verdict
            `output_not_representable`, the others their ordinary verdicts.  The same is done when an observed array does not have the
            shape the case declares (index / domain errors)."""
            res = run_batch(ch, sub)
            out = {}
            if res.ok:
                for tag, val in res.printed:
                    if tag == "V" and isinstance(val, dict):
                        out[val["id"]] = val
                if len(out) == len(ch):
                    return out, res
            if not any(a in res.out for a in arith):
                return None, res
            if len(ch) == 1:
                msg = next((ln for ln in res.out.splitlines() if any(a in ln for a in arith)), "arithmetic error")
                return {ch[0]["id"]: {"id": ch[0]["id"], "failed": ["output_not_representable"], "detail": [msg[:200]]}}, res
            mid = len(ch) // 2
            a_, ra = bisect(ch[:mid], sub / "a", depth + 1)
            b_, rb = bisect(ch[mid:], sub / "b", depth + 1)
            if a_ is None or b_ is None:
                return None, (ra if a_ is None else rb)
            a_.update(b_)
            return a_, res

        def one(k):
            ch = chunks[k]
            sub = self.work / f"{label}_{k}"
            t = time.time()
            res = run_batch(ch, sub)
            got = None
            if not res.ok and any(a in res.out for a in arith):
                got, res2 = bisect(ch, sub / "split")
                if got is not None:
                    res._forced_ok = True          # every case of the batch has a verdict now
                    res.printed = [("V", v) for v in got.values()]
            return k, res, time.time() - t

        with ThreadPoolExecutor(max_workers=parallel) as ex:
            for k, res, dt in ex.map(one, range(len(chunks))):
                self.states += res.distinct
                self.transitions += res.generated
                self.tlc_runs.append({"module": module, "cfg": cfg, "label": f"{label}_{k}", "distinct": res.distinct,
                                      "generated": res.generated, "wall_s": round(dt, 2), "ok": res.ok})
                if not res.ok:
                    tail = "\n".join(res.out.splitlines()[-40:])
                    raise MachineryFailure(f"TLC failed on trace batch {label}_{k}:\n{tail}")
                got = 0
                for tag, val in res.printed:
                    if tag == "V" and isinstance(val, dict):
                        verdicts[val["id"]] = val
                        got += 1
                if got != len(chunks[k]):
                    raise MachineryFailure(f"trace batch {label}_{k}: {got} verdicts for {len(chunks[k])} cases")
        self.traces += len(cases)
        return verdicts

    # ---- coverage ------------------------------------------------------------------------------------------
    def count(self, key=None, n: int = 1):
        """One evaluation; `key` (hashable or None) identifies a distinct non-trivial case."""
        self.evaluations += n
        if key is not None:
            self.nontrivial.add(key if isinstance(key, (str, int, tuple)) else json.dumps(key, sort_keys=True, default=str))

    def sample(self, s, limit: int = 6):
        if len(self.samples) < limit:
            self.samples.append(s)

    # ---- verdicts ------------------------------------------------------------------------------------------
    def violation(self, clause: str, features: dict, record: dict, what: str = ""):
        """Report one violating case. `features` classifies the failing input/call site/history; it is what
        known_findings.json matches on."""
        rec = {"property": self.pid, "clause": clause, "features": features, "what": what, "record": record}
        for f in self.findings:
            if f.get("status") != "finding":
                continue
            m = f.get("match", {})
            if m.get("clause") not in (None, clause) and clause not in (m.get("clauses") or []):
                continue
            if _subset(m.get("features", {}), features):
                hit = self.known_hits.setdefault(f["id"], {"finding": f, "count": 0, "example": rec})
                hit["count"] += 1
                return "known"
        self.violations.append(rec)
        return "new"

    def finish(self):
        wall = time.time() - self.t0
        EVID.mkdir(exist_ok=True)
        (EVID / "replay").mkdir(exist_ok=True)
        lines = []
        for f in self.findings:
            if f.get("status") != "finding":
                continue
            hit = self.known_hits.get(f["id"])
            met = f"met {hit['count']}x this run" if hit else "listed; not met by the cases sampled in this run"
            lines.append(f"KNOWN-FINDING: property={self.pid} {f['id']} {f.get('what', '')} ({met})")
        # group violations by (clause, features) so that the output stays readable
        groups: dict = {}
        for v in self.violations:
            k = json.dumps([v["clause"], v["features"]], sort_keys=True, default=str)
            groups.setdefault(k, []).append(v)
        replay_paths = []
        for k, vs in groups.items():
            h = hashlib.sha1(k.encode()).hexdigest()[:10]
            p = EVID / "replay" / f"{self.pid}-{h}.json"
            p.write_text(json.dumps({"property": self.pid, "clause": vs[0]["clause"], "features": vs[0]["features"],
                                     "count": len(vs), "what": vs[0]["what"], "examples": [x["record"] for x in vs[:3]]},
                                    indent=1, default=str))
            replay_paths.append(str(p))
            lines.append(f"VIOLATION property={self.pid} replay={p}")
            lines.append(f"  clause={vs[0]['clause']} features={json.dumps(vs[0]['features'], default=str)} n={len(vs)} {vs[0]['what']}")
        cov = {
            "states": self.states,
            "transitions": self.transitions,
            "traces_validated_against_impl": self.traces,
            "evaluations": max(self.evaluations, 0),
            "distinct_nontrivial": len(self.nontrivial),
            "rule": self.rule,
            "samples": self.samples if self.samples else ["(none)"],
            "exhaustive": self.exhaustive,
            "tlc_runs": self.tlc_runs[:60],
            "known_findings_met": {k: v["count"] for k, v in self.known_hits.items()},
        }
        cov.update(self.extra)
        ev = {
            "property_id": self.pid,
            "tier": self.tier,
            "seed": self.seed,
            "level": self.level,
            "coverage": cov,
            "assumptions": self.assumptions,
            "wall_s": round(wall, 2),
            "violations": len(self.violations),
        }
        (EVID / f"{self.pid}.json").write_text(json.dumps(ev, indent=1, default=str))
        for l in lines:
            print(l)
        print(f"[{self.pid} {self.tier}] states={self.states} transitions={self.transitions} traces={self.traces} "
              f"evaluations={self.evaluations} distinct={len(self.nontrivial)} violations={len(self.violations)} "
              f"known={len(self.known_hits)} wall={wall:.1f}s")
        if not os.environ.get("VP_KEEP_WORK"):
            shutil.rmtree(self.work, ignore_errors=True)
        return 1 if self.violations else 0


def _raised_in_repo(tb) -> tuple[bool, list[str]]:
    """Walks a traceback from the innermost frame outwards, skipping library frames: True when the first frame that
    belongs to either the harness or the repository belongs to the repository (the real code raised by itself on an
    input the harness built), False when it belongs to the harness (a machinery problem)."""
    import traceback
    repo = os.path.realpath(os.environ.get("VP_RUN_REPO", "/repo")) + os.sep
    harness = os.path.realpath(str(VERIF / "harness")) + os.sep
    frames = traceback.extract_tb(tb)
    where = [f"{fr.filename}:{fr.lineno} {fr.name}" for fr in frames[-6:]]
    for fr in reversed(frames):
        fn_ = os.path.realpath(fr.filename)
        if fn_.endswith(os.path.join("vp", "footprint.py")):
            continue            # the recording proxies are transparent: an index error inside them is the kernel's
        if fn_.startswith(repo):
            return True, where
        if fn_.startswith(harness):
            return False, where
    return False, where


CURRENT: list = []      # the Check object of this process (set by Check.__init__)


def main_wrapper(fn, pid: str, tier: str):
    """Run a driver; machinery failures give exit 2 and never a VIOLATION line.  An exception (or sys.exit) raised by
    the repository's own code on an input that the driver built - every driver catches the rejections its specification
    expects, and on the unchanged tree none escapes - means that the implementation produced no result where every
    property demands one: it is reported as a violation of clause `real_code_raised`, not as a machinery failure."""
    try:
        rc = fn(tier)
    except MachineryFailure as e:
        print(f"MACHINERY-FAILURE property={pid}: {e}", file=sys.stderr)
        sys.exit(2)
    except (Exception, SystemExit) as e:  # pylint: disable=broad-except
        import traceback
        traceback.print_exc()
        in_repo, where = _raised_in_repo(e.__traceback__)
        if in_repo:
            chk = CURRENT[-1] if CURRENT else Check(pid, tier)
            site = next((w for w in reversed(where) if "/pandora/" in w), where[-1] if where else "?")
            chk.violation("real_code_raised", {"exception": type(e).__name__, "site": site.split(" ")[-1]},
                          {"exception": f"{type(e).__name__}: {e}", "frames": where, "tier": tier, "seed": seed(),
                           "reproduce": f"VERIF_SEED={seed()} bin/check {pid} {tier}"},
                          f"the implementation raised {type(e).__name__} on an input the specification accepts ({site})")
            sys.exit(chk.finish())
        print(f"MACHINERY-FAILURE property={pid}: {type(e).__name__}: {e}", file=sys.stderr)
        sys.exit(2)
    sys.exit(rc)
