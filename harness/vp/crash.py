"""Called by bin/check when the check process was killed by SIGSEGV / SIGABRT / SIGBUS / SIGFPE: the repository's numba
kernels run without bounds checking, so an out-of-range index in the implementation corrupts memory and takes the interpreter
down.  No check does that on the unchanged tree; the run is reported as a violation (clause `interpreter_crashed`), with the
signal and the end of the process' output in the replay file, instead of leaving an exit code nobody can read."""
import sys

from vp.core import Check, seed


def main():
    pid, tier, rc, tail = sys.argv[1], sys.argv[2], int(sys.argv[3]), sys.argv[4] if len(sys.argv) > 4 else ""
    names = {134: "SIGABRT", 135: "SIGBUS", 136: "SIGFPE", 139: "SIGSEGV"}
    chk = Check(pid, tier)
    try:
        log = open(tail, errors="replace").read()[-4000:] if tail else ""
    except OSError:
        log = ""
    chk.assumptions.append("the check process was killed by a signal while it was driving the implementation; nothing else was explored")
    chk.violation("interpreter_crashed", {"signal": names.get(rc, str(rc))},
                  {"exit_status": rc, "signal": names.get(rc, str(rc)), "last_output": log, "reproduce": f"VERIF_SEED={seed()} bin/check {pid} {tier}"},
                  f"the interpreter was killed by {names.get(rc, rc)} while the check drove the implementation (memory corruption in compiled code)")
    sys.exit(chk.finish())


if __name__ == "__main__":
    main()
