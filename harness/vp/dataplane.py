"""Data-plane drivers: abstract stereo problems -> real Pandora datasets -> real step executions -> step cases."""
from __future__ import annotations

import numpy as np

from vp import build
from vp.project import NAN, enc_int, enc_scaled


def cost_scale(measure, s, iq=1):
    """iq: image quantum (radiometry = integer / iq), so SAD is an integer once multiplied by s*iq"""
    return {"sad": s * iq, "ssd": s * s * iq * iq, "census": 1, "zncc": 100}[measure]


# mask conventions (valid_pixels, no_data_mask, code used for "invalid"): the two images of a pair need not share one
CONVENTIONS = [(0, 1, 2), (1, 0, 2), (0, 2, 1), (7, 3, 1), (2, 1, 0)]


def code_mask(m, conv):
    """abstract mask (0 valid, 1 nodata, other invalid) -> the image's own coding"""
    v, n, x = conv
    m = np.asarray(m)
    return np.where(m == 0, v, np.where(m == 1, n, x)).astype(np.int16)


def gen_problem(rng, *, rows, cols, win, s, measure, disp, vmax=3, nbands=1, mask_mode="none",
                grid=False, inv=-9999, iq=1, conv=None):
    """A random small stereo problem with integer radiometry (in units of 1/iq).
    conv: None (both images use valid_pixels 0 / no_data_mask 1) or a pair of CONVENTIONS entries (left, right).
    disp = (a, b) global interval; grid: per-pixel intervals inside [a, b];
    mask_mode: none | left | right | both  (a few nodata / invalid pixels)."""
    L = rng.randint(0, vmax + 1, size=(nbands, rows, cols))
    # right image = left shifted by a random disparity + noise, so that costs are not all alike
    sh = rng.randint(disp[0], disp[1] + 1) if disp[1] >= disp[0] else 0
    R = np.roll(L, sh, axis=2)
    noise = rng.rand(nbands, rows, cols) < 0.35
    R = np.where(noise, rng.randint(0, vmax + 1, size=(nbands, rows, cols)), R)

    def mk_mask():
        m = np.zeros((rows, cols), dtype=np.int16)
        n = rng.randint(1, 4)
        for _ in range(n):
            m[rng.randint(rows), rng.randint(cols)] = rng.choice([1, 2, 2, 7])
        return m
    mL = mk_mask() if mask_mode in ("left", "both") else None
    mR = mk_mask() if mask_mode in ("right", "both") else None
    if grid:
        a, b = disp
        lo = rng.randint(a, b + 1, size=(rows, cols))
        hi = rng.randint(a, b + 1, size=(rows, cols))
        dmin, dmax = np.minimum(lo, hi), np.maximum(lo, hi)
        mode = rng.randint(4)      # both grids vary / constant min / constant max / constant both
        if mode in (1, 3):
            dmin = np.full((rows, cols), a)
        if mode in (2, 3):
            dmax = np.full((rows, cols), b)
        if rng.rand() < 0.4:
            # fractional bounds (a grid is a float raster): eighths, i.e. not multiples of 1/subpix for subpix <= 4
            dmin = dmin - rng.randint(0, 8, size=(rows, cols)) / 8.0
            dmax = dmax + rng.randint(0, 8, size=(rows, cols)) / 8.0
        d = ("grid", dmin, dmax)
    else:
        d = ("scalar", int(disp[0]), int(disp[1]))
    bands = [f"b{k}" for k in range(nbands)] if nbands > 1 else None
    band = None if nbands == 1 else bands[rng.randint(nbands)]
    # the right image may store its bands in another order: a band is selected by NAME
    rbands = None if bands is None else [bands[k] for k in rng.permutation(nbands)]
    return dict(rows=rows, cols=cols, win=win, s=s, measure=measure, L=L, R=R, mL=mL, mR=mR, disp=d,
                bands=bands, rbands=rbands, band=band, inv=inv, iq=iq, conv=conv)


def global_interval(prob):
    d = prob["disp"]
    if d[0] == "scalar":
        return d[1], d[2]
    return int(np.nanmin(d[1])), int(np.nanmax(d[2]))


def _mask3(m, rows, cols):
    if m is None:
        return np.zeros((rows, cols), dtype=int).tolist()
    m = np.asarray(m)
    return np.where(m == 0, 0, np.where(m == 1, 1, 2)).astype(int).tolist()


def problem_json(prob, mirror=False):
    """The record P of MatchingCost.tla (mirror: the right-image problem = images exchanged, interval negated)."""
    rows, cols = prob["rows"], prob["cols"]
    gmin, gmax = global_interval(prob)
    d = prob["disp"]
    if d[0] == "scalar":
        dmin = np.full((rows, cols), d[1])
        dmax = np.full((rows, cols), d[2])
    else:
        dmin, dmax = d[1], d[2]
    L, R, mL, mR = prob["L"], prob["R"], prob["mL"], prob["mR"]
    # prob["R"] is indexed in the LEFT band order (by name); the real right dataset may store another order
    if mirror:
        L, R, mL, mR = R, L, mR, mL
        if prob.get("rdisp") is not None:
            dmin, dmax = prob["rdisp"]
            gmin, gmax = int(np.nanmin(dmin)), int(np.nanmax(dmax))
        else:
            # the right interval is the negated global interval (grids are NOT transferred: machine uses -max,-min)
            dmin, dmax = -np.asarray(dmax), -np.asarray(dmin)
            gmin, gmax = -gmax, -gmin
    band = 1 if prob["band"] is None else prob["bands"].index(prob["band"]) + 1
    return {"rows": rows, "cols": cols, "win": prob["win"], "s": prob["s"], "measure": prob["measure"], "band": band,
            "L": enc_int(L), "R": enc_int(R), "mL": _mask3(mL, rows, cols), "mR": _mask3(mR, rows, cols),
            "dmin8": enc_int(np.rint(np.asarray(dmin, dtype=np.float64) * 8)), "dmax8": enc_int(np.rint(np.asarray(dmax, dtype=np.float64) * 8)),
            "gmin": int(gmin), "gmax": int(gmax), "iq": int(prob.get("iq", 1))}


def make_datasets(prob, row0=0, col0=0):
    d = prob["disp"]
    disp = (d[1], d[2])
    iq = prob.get("iq", 1)
    L = (prob["L"][0] if prob["bands"] is None else prob["L"]) / iq
    R = (prob["R"][0] if prob["bands"] is None else prob["R"]) / iq
    mL, mR, aL, aR = prob["mL"], prob["mR"], None, None
    if prob.get("conv") is not None:
        cL, cR = prob["conv"]
        aL = {"valid_pixels": cL[0], "no_data_mask": cL[1]}
        aR = {"valid_pixels": cR[0], "no_data_mask": cR[1]}
        mL = None if mL is None else code_mask(mL, cL)
        mR = None if mR is None else code_mask(mR, cR)
    left = build.make_image(L, mask=mL, disp=disp, bands=prob["bands"], row0=row0, col0=col0, attrs=aL)
    rdisp = prob.get("rdisp")
    rb = prob.get("rbands")
    if rb is not None:
        R = np.stack([R[prob["bands"].index(n)] for n in rb])     # stored in the right image's own band order
    right = build.make_image(R, mask=mR, disp=rdisp, bands=rb if rb is not None else prob["bands"],
                             row0=row0, col0=col0, attrs=aR)
    return left, right


def mc_cfg(prob):
    c = {"matching_cost_method": prob["measure"], "window_size": prob["win"], "subpix": prob["s"]}
    if prob["band"] is not None:
        c["band"] = prob["band"]
    return c


def enc_cv(cv_ds, prob):
    return enc_scaled(cv_ds["cost_volume"].data, cost_scale(prob["measure"], prob["s"], prob.get("iq", 1)),
                      tol=0.5001 if prob["measure"] == "zncc" else 1e-3)


def mc_out(cv_ds, prob):
    return {"cv": enc_cv(cv_ds, prob), "vm": enc_int(cv_ds["validity_mask"].data),
            "type": str(cv_ds.attrs.get("type_measure")), "cmax": int(cv_ds.attrs.get("cmax", -1))}


class StepRunner:
    """Runs a pipeline on a real PandoraMachine one step at a time (run_prepare / run(step) / run_exit), so that the
    state between steps is observable."""

    def __init__(self, left, right, cfg, machine=None):
        from pandora.state_machine import PandoraMachine
        self.m = machine if machine is not None else PandoraMachine()
        self.cfg = cfg
        self.left, self.right = left, right
        self.m.run_prepare(cfg, left, right)
        self.steps = list(cfg["pipeline"])
        self.pos = 0

    def step(self):
        name = self.steps[self.pos]
        self.m.run(name, self.cfg)
        self.pos += 1
        return name

    def close(self):
        self.m.run_exit()


def run_pipeline(left, right, cfg):
    """pandora.run on a fresh machine; returns (left dataset, right dataset, machine)"""
    import pandora
    from pandora.state_machine import PandoraMachine
    m = PandoraMachine()
    l, r = pandora.run(m, left, right, cfg)
    return l, r, m


def products(ds):
    """named 2-D arrays of a disparity dataset: disparity_map, validity_mask, each confidence band, interpolated_coeff"""
    out = {}
    if ds is None or "disparity_map" not in ds.data_vars:
        return out
    out["disparity_map"] = np.asarray(ds["disparity_map"].data, dtype=np.float64)
    out["validity_mask"] = np.asarray(ds["validity_mask"].data, dtype=np.float64)
    if "confidence_measure" in ds.data_vars:
        for i, name in enumerate(map(str, ds.coords["indicator"].data)):
            out["band:" + name] = np.asarray(ds["confidence_measure"].data[:, :, i], dtype=np.float64)
    if "interpolated_coeff" in ds.data_vars:
        out["interpolated_coeff"] = np.asarray(ds["interpolated_coeff"].data, dtype=np.float64)
    return out
