"""C01 - accepted pipelines are exactly the documented automaton and run as written.

1. B1 + model checking: the transition tables are extracted from the live class; TLC decides
   (a) MC_Language: unbounded language equivalence with the documented automaton (product automaton),
   (a') MachineInd.tla (typed abstraction, Apalache): an INDUCTIVE invariant implying BackToInitial - pipelines and histories of every length,
   (b) MC_Machine: all pipelines <= MaxLen, histories <= 3 operations, scales <= 3: AcceptIffDocPath,
       RunsAsWritten, CheckVisitsAll, BackToInitial, SequencingErrorNamed.
2. B3 trace validation: histories (check, run, check again, run again, ...) of real PandoraMachine objects,
   real step classes on tiny images, every event (check callbacks, step executions with side and scale,
   outcome, machine state and leftover transitions) validated against the same actions by TLC.
"""
from __future__ import annotations

import itertools
import random

import numpy as np

from vp import build
from vp.core import Check, MachineryFailure
from vp.extract import write_tables, write_typed_tables
from vp.tracer import MachineTracer, project_machine


def _images(rows=6, cols=8, seed=0):
    rng = np.random.RandomState(seed)
    left = rng.randint(0, 12, size=(rows, cols)).astype(np.float32)
    right = np.roll(left, 1, axis=1)
    L = build.make_image(left, disp=(-2, 2))
    R = build.make_image(right, disp=None)
    return L, R


def doc_accepts(kinds, bad):
    q = "begin"
    for k in kinds:
        if q == "begin" and k == "matching_cost":
            q = "cost_volume"
        elif q == "cost_volume" and k in ("aggregation", "optimization", "semantic_segmentation", "cost_volume_confidence"):
            q = "cost_volume"
        elif q == "cost_volume" and k == "disparity":
            q = "disp_map"
        elif q == "disp_map" and k in ("filter", "refinement", "validation", "multiscale"):
            q = "disp_map"
        else:
            return False
    return bad is None and len(kinds) > 0


# an ill-typed value for one parameter of the kinds whose step class validates its parameters with a schema
ILL_TYPED = {"matching_cost": {"window_size": "three"}, "aggregation": {"cbca_intensity": "x"}, "filter": {"filter_size": "three"},
             "validation": {"cross_checking_threshold": "x"}, "multiscale": {"num_scales": "x"}}


class History:
    """Drives one real machine object through a history of operations and records the trace."""

    def __init__(self, tid, L, R, force_scales=False):
        from pandora.state_machine import PandoraMachine
        self.machine = PandoraMachine()
        self.tid = tid
        self.L, self.R = L, R
        self.ops = []
        self.force_scales = force_scales
        self.interp = None          # "mc-cnn" | "sgm": the validation steps of this history fill occlusions / mismatches
        rows, cols = L.sizes["row"], L.sizes["col"]
        self.metaL = build.make_metadata(rows, cols, disp=(-2, 2))
        self.metaR = build.make_metadata(rows, cols, disp=None)

    def _pipe_json(self, names, bad):
        return [{"kind": k, "sfx": s, "ok": (bad is None or i != bad), "fill": bool(self.interp and k == "validation")}
                for i, (_, k, s) in enumerate(names)]

    def _overrides(self, kinds):
        if not self.interp:
            return None
        return {i: {"interpolated_disparity": self.interp} for i, k in enumerate(kinds) if k == "validation"}

    def check(self, kinds, first_suffix=False, bad=None, suffix_at=(), ill=None):
        """bad: index of a step naming an unknown method; ill: index of a step with an ill-typed parameter (refused by the step's
        own json_checker schema, i.e. by an exception that is NOT a sequencing error)"""
        from transitions import MachineError
        from pandora.check_configuration import check_pipeline_section
        ov = dict(self._overrides(kinds) or {})
        if ill is not None:
            ov[ill] = dict(ov.get(ill, {}), **ILL_TYPED[kinds[ill]])
            bad_json = ill
        else:
            bad_json = bad
        cfg, names = build.pipeline_cfg(kinds, first_suffix=first_suffix, bad=bad, suffix_at=suffix_at, overrides=ov or None)
        idx_of = {n: i + 1 for i, (n, _, _) in enumerate(names)}
        checked = None
        with MachineTracer(self.machine) as tr:
            try:
                checked = check_pipeline_section(cfg, self.metaL, self.metaR, self.machine)
                end = {"ev": "CheckEnd", "outcome": "accepted", "err": "none"}
            except MachineError as e:
                end = {"ev": "CheckEnd", "outcome": "rejected", "err": "sequencing", "exc": repr(e)[:200]}
            except Exception as e:  # pylint: disable=broad-except
                end = {"ev": "CheckEnd", "outcome": "rejected", "err": "other", "exc": repr(e)[:200]}
            evs = [{"ev": "CheckCb", "idx": idx_of.get(e["name"], 0), "kind": e["kind"]} for e in tr.events
                   if e["ev"] == "CheckCb"]
        op = {"op": "check", "pipeline": self._pipe_json(names, bad_json), "ns": 1, "events": evs + [end],
              "post": project_machine(self.machine), "names": [n for n, _, _ in names]}
        self.ops.append(op)
        return checked

    def run(self, kinds, checked_cfg, first_suffix=False, suffix_at=()):
        import pandora
        from pandora import check_configuration
        cfg, names = build.pipeline_cfg(kinds, first_suffix=first_suffix, suffix_at=suffix_at, overrides=self._overrides(kinds))
        if checked_cfg is None:
            checked_cfg = cfg
        idx_of = {n: i + 1 for i, (n, _, _) in enumerate(names)}
        ms_names = [n for n, k, _ in names if k == "multiscale"]
        orig_rmp = pandora.read_multiscale_params
        if self.force_scales and ms_names:
            # named deviation C15-F1: substitute the documented multiscale parameters so that the rest of the
            # per-scale loop is still exercised (only enabled by the caller when that finding is listed)
            c = checked_cfg["pipeline"][ms_names[0]]
            pandora.read_multiscale_params = lambda _cfg: (c["num_scales"], c["scale_factor"])
        with MachineTracer(self.machine) as tr:
            try:
                pandora.run(self.machine, self.L, self.R, checked_cfg)
                end = {"ev": "RunEnd", "outcome": "ran", "err": "none"}
            except Exception as e:  # pylint: disable=broad-except
                from transitions import MachineError
                end = {"ev": "RunEnd", "outcome": "raised",
                       "err": "sequencing" if isinstance(e, (MachineError, KeyError, AttributeError)) else "other",
                       "exc": repr(e)[:200]}
            finally:
                pandora.read_multiscale_params = orig_rmp
            ns = int(self.machine.num_scales)
            evs = []
            for e in tr.events:
                sc = int(e["cscale"]) if e.get("cscale") is not None else -1
                if e["ev"] == "RunCb":
                    evs.append({"ev": "RunCb", "idx": idx_of.get(e["name"], 0), "kind": e["kind"], "side": e["side"],
                                "scale": sc, "rows": e["rows"], "cols": e["cols"]})
                elif e["ev"] == "RunSub":
                    evs.append({"ev": "RunSub", "idx": idx_of.get(e["name"], 0), "what": e["what"], "side": e["side"], "scale": sc})
        op = {"op": "run", "pipeline": self._pipe_json(names, None), "ns": ns, "events": evs + [end],
              "post": project_machine(self.machine), "names": [n for n, _, _ in names]}
        self.ops.append(op)

    def trace(self):
        return {"id": self.tid, "ops": self.ops}


def classify(trace, failed):
    """Features of a failing operation: what known_findings.json matches on."""
    k, clause, pos = failed
    op = trace["ops"][k - 1]
    kinds = [s["kind"] for s in op["pipeline"]]
    f = {"op": op["op"], "clause": clause}
    f["first_step_suffixed"] = op["pipeline"][0]["sfx"] >= 0
    f["suffixed_kinds"] = sorted({s["kind"] for s in op["pipeline"] if s["sfx"] >= 0})
    f["doc_accepts"] = doc_accepts(kinds, None) and all(s["ok"] for s in op["pipeline"])
    prev_dirty = any(o["post"]["ms"] != "begin" or o["post"]["nev"] != 0 for o in trace["ops"][:k - 1])
    f["after_dirty_machine"] = prev_dirty
    prev_failed = any(o["events"][-1]["outcome"] in ("rejected", "raised") for o in trace["ops"][:k - 1])
    f["after_failed_op"] = prev_failed
    if clause == "events" and pos:
        ev = op["events"][pos - 1]
        f["stuck_ev"] = ev["ev"]
        if ev["ev"] in ("CheckEnd", "RunEnd"):
            f["observed_outcome"] = ev["outcome"]
            f["observed_err"] = ev["err"]
        if ev["ev"] == "RunCb":
            f["stuck_kind"] = ev["kind"]
            f["stuck_side"] = ev["side"]
        if ev["ev"] == "RunSub":
            f["stuck_kind"] = "validation:" + ev["what"]
            f["stuck_side"] = ev["side"]
    f["has_multiscale"] = "multiscale" in kinds
    f["has_validation"] = "validation" in kinds
    val_names = [n for n, s in zip(op["names"], op["pipeline"]) if s["kind"] == "validation"]
    f["validation_key_literal"] = ("validation" in val_names) if val_names else None
    return f


def gen_histories(tier, rng):
    """Histories to drive: (kinds, first_suffix, bad index, shape of history)."""
    K = build.KINDS
    maxlen = 3 if tier == "quick" else 4
    pipes = []
    for n in range(1, maxlen + 1):
        for ks in itertools.product(K, repeat=n):
            pipes.append(ks)
    accepted = [p for p in pipes if doc_accepts(p, None)]
    rejected = [p for p in pipes if not doc_accepts(p, None)]
    # longer accepted pipelines: random walks of the documented automaton, with repetitions
    cv = ["aggregation", "optimization", "semantic_segmentation", "cost_volume_confidence"]
    dm = ["filter", "refinement", "validation", "multiscale"]
    longer = []
    for _ in range(60 if tier == "quick" else 400):
        p = ["matching_cost"] + [rng.choice(cv) for _ in range(rng.randint(0, 3))] + ["disparity"] + \
            [rng.choice(dm) for _ in range(rng.randint(1, 4))]
        longer.append(tuple(p))
    hist = []
    nrej = 150 if tier == "quick" else 1500
    rng.shuffle(rejected)
    # rejected pipelines: check; check again
    for p in rejected[:nrej]:
        hist.append(("cc", p, False, None))
    # every accepted pipeline: check, run, check, run (same machine)
    for p in accepted + longer:
        hist.append(("crcr", p, False, None))
    # suffix on the first occurrence of every kind
    for p in (accepted + longer)[:: (3 if tier == "quick" else 1)]:
        hist.append(("cr", p, True, None))
    # unknown method at each position of accepted pipelines
    for p in (accepted + longer)[:: (4 if tier == "quick" else 1)]:
        hist.append(("cc", p, False, rng.randrange(len(p))))
    # history dependence: a rejected check followed by an accepted pipeline on the same machine
    for p, q in zip(rejected[: (40 if tier == "quick" else 300)], itertools.cycle(accepted + longer)):
        hist.append(("mix", (p, q), False, None))
    # run without a preceding check on this machine (checked on another machine object)
    for p in (accepted + longer)[:: (5 if tier == "quick" else 1)]:
        hist.append(("other_machine", p, False, None))
    # suffix on exactly one step (its first occurrence), every position
    for p in (accepted + longer)[:: (6 if tier == "quick" else 1)]:
        for i in range(len(p)):
            hist.append(("sfx_one", p, False, i))
            hist.append(("sfx_one_other", p, False, i))
    # leftovers of a previous operation: a pipeline with a validation step, then one without, same machine
    with_val = [p for p in accepted + longer if "validation" in p]
    without = [p for p in accepted + longer if "validation" not in p and "disparity" in p]
    for a, b in zip(with_val[: (25 if tier == "quick" else 200)], itertools.cycle(without)):
        hist.append(("stale_check", (a, b), False, None))
        hist.append(("stale_run", (a, b), False, None))
        hist.append(("stale_failed", (a, b), False, None))
    # a check refused for an ILL-TYPED PARAMETER (an exception that is not a sequencing error) at every eligible position, then a
    # legal pipeline checked and run on the same machine object
    k = 0
    for p in (accepted + longer)[:: (2 if tier == "quick" else 1)]:
        pos = [i for i, kd in enumerate(p) if kd in ILL_TYPED]
        for i in (pos if tier != "quick" else [pos[k % len(pos)]]):
            k += 1
            hist.append(("ill_then_good", (p, (accepted + longer)[k % len(accepted + longer)]), False, i))
    return hist


def run(tier):
    chk = Check("C01", tier)
    build.register_stubs()
    rng = random.Random(chk.seed)
    tables = write_tables(chk.work / "MC_Tables.tla")
    chk.assumptions += [
        "optimization / semantic_segmentation have no built-in method: identity stub plugins are registered by the harness",
        "step parameters are valid defaults (parameter policing is C05); one ill-named method per pipeline variant",
        "trace validation judges every operation of a history from the clean machine state (the specification's"
        " post-state of every operation), so history dependence of the real machine shows as a rejected trace",
    ]
    # ---- 1. model checking on the extracted tables -----------------------------------------------------------
    res = chk.tlc("MC_Language", "MC_Language.cfg", label="language", include=[tables])
    for inv in res.invariant_violations:
        chk.violation("language:" + inv, {"model": "MC_Language", "invariant": inv},
                      {"tlc": res.trace_text()}, "extracted transition tables differ from the documented automaton")
    cfg = "MC_Machine.cfg" if tier == "quick" else "MC_Machine_thorough.cfg"
    res = chk.tlc("MC_Machine", cfg, label="machine", include=[tables], workers=16, timeout=1500, heap="8g",
                  coverage=(tier == "thorough"))
    for inv in res.invariant_violations:
        chk.violation("model:" + inv, {"model": "MC_Machine", "invariant": inv}, {"tlc": res.trace_text()},
                      "the extracted tables executed by the documented loops violate " + inv)
    # vacuity gates: the interesting states must be reachable in the model
    v = chk.tlc("MC_Machine", "MC_Machine_vac.cfg", label="vac1", include=[tables], workers=8, expect_ok=False)
    v2 = chk.tlc("MC_Machine", "MC_Machine_vac2.cfg", label="vac2", include=[tables], workers=4, expect_ok=False)
    v3 = chk.tlc("MC_Machine", "MC_Machine_vac3.cfg", label="vac3", include=[tables], workers=8, expect_ok=False)
    if not res.invariant_violations and ("NeverRan" not in v.invariant_violations or "NeverRejected" not in v2.invariant_violations
                                         or "NeverFilled" not in v3.invariant_violations):
        raise MachineryFailure("vacuity gate: a multi-scale run with validation / a sequencing rejection is not reachable in the model")
    chk.extra["model_coverage"] = res.coverage
    # unbounded: Apalache discharges an INDUCTIVE invariant of the typed abstraction (any pipeline length, any history length)
    from vp.core import run_apalache
    typed = write_typed_tables(chk.work / "MachineIndTables.tla")
    obligations = [("Init => IndInv", ["--init=Init", "--inv=IndInv", "--length=0"]),
                   ("IndInv /\\ Next => IndInv'", ["--init=IndInv", "--inv=IndInv", "--length=1"]),
                   ("IndInv => BackToInitial", ["--init=IndInv", "--inv=BackToInitial", "--length=0"])]
    proved = 0
    for name, args in obligations:
        ok, out = run_apalache("MachineInd", chk.work / "apalache", args, include=[typed])
        if ok:
            proved += 1
        else:
            chk.violation("model:IndInv", {"model": "MachineInd", "invariant": name}, {"apalache": out[-3000:]},
                          f"the extracted tables break the inductive invariant: {name}")
    chk.extra["apalache_inductive_obligations"] = {"obligations": len(obligations), "discharged": proved}

    # ---- 2. trace validation of real machines -----------------------------------------------------------------
    L, R = _images()
    force = any(f.get("id") == "C15-F1" and f.get("status") == "finding" for f in __import__("vp.core", fromlist=["x"]).load_findings())
    chk.extra["forced_scales_mode"] = force
    traces = []
    n = 0
    for shape, p, first_suffix, bad in gen_histories(tier, rng):
        n += 1
        for fs in ([False, True] if (force and shape in ("crcr", "cr") and "multiscale" in p) else [False]):
            h = History(f"h{n}{'f' if fs else ''}", L, R, force_scales=fs)
            if shape in ("crcr", "cr", "other_machine", "sfx_one") and "validation" in (p if not isinstance(p[0], tuple) else ()):
                h.interp = [None, "mc-cnn", "sgm"][n % 3]
            if shape == "cc":
                h.check(p, first_suffix, bad)
                h.check(p, first_suffix, bad)
            elif shape in ("crcr", "cr"):
                ok = True
                for _ in range(len(shape) // 2):
                    c = h.check(p, first_suffix)
                    if c is None:
                        ok = False
                        break
                    h.run(p, c, first_suffix)
                if not ok and len(h.ops) == 1:
                    h.check(p, first_suffix)
            elif shape == "mix":
                bad_p, good_p = p
                h.check(bad_p)
                c = h.check(good_p)
                if c is not None:
                    h.run(good_p, c)
            elif shape == "sfx_one":
                c = h.check(p, suffix_at=(bad,))
                if c is not None:
                    h.run(p, c, suffix_at=(bad,))
                    h.run(p, c, suffix_at=(bad,))
            elif shape == "sfx_one_other":
                other = History("x", L, R)
                other.interp = h.interp
                c = other.check(p, suffix_at=(bad,))
                if c is None:
                    continue
                h.run(p, c, suffix_at=(bad,))
            elif shape == "stale_check":
                a, b = p
                h.check(a)
                c = h.check(b)
                if c is not None:
                    h.run(b, c)
            elif shape == "stale_run":
                a, b = p
                ca = h.check(a)
                if ca is not None:
                    h.run(a, ca)
                other = History("x", L, R)
                cb = other.check(b)
                if cb is not None:
                    h.run(b, cb)
            elif shape == "stale_failed":
                a, b = p
                h.check(a + ("matching_cost",))   # rejected after the validation step was visited
                c = h.check(b)
                if c is not None:
                    h.run(b, c)
            elif shape == "ill_then_good":
                a, b = p
                h.check(a, ill=bad)
                c = h.check(b)
                if c is not None:
                    h.run(b, c)
            elif shape == "other_machine":
                other = History("x", L, R)
                other.interp = h.interp
                c = other.check(p)
                if c is None:
                    continue
                h.run(p, c)
                h.run(p, c)
            traces.append(h.trace())
            chk.count(key=(shape, p if not isinstance(p[0], tuple) else p[0] + ("|",) + p[1], first_suffix, bad, fs))
    for t in traces[:3]:
        chk.sample({"id": t["id"], "ops": [{"op": o["op"], "names": o["names"], "events": o["events"][:6],
                                            "post": o["post"]} for o in t["ops"]]})
    slim = [{"id": t["id"], "ops": [{"op": o["op"], "pipeline": o["pipeline"], "ns": o["ns"],
                                     "events": [{k: v for k, v in e.items() if k not in ("exc", "rows", "cols")} for e in o["events"]],
                                     "post": {"ms": o["post"]["ms"], "nev": o["post"]["nev"]}} for o in t["ops"]]}
            for t in traces]
    verdicts = chk.tlc_cases("MachineTrace", "MachineTrace.cfg", slim, label="mtrace", chunk=300, include=[tables])
    by_id = {t["id"]: t for t in traces}
    for tid, v in verdicts.items():
        for failed in v["failed"]:
            t = by_id[tid]
            feat = classify(t, failed)
            op = t["ops"][failed[0] - 1]
            chk.violation(failed[1], feat, {"trace": t, "failed": failed},
                          f"history {tid} op#{failed[0]} {op['op']} {op['names']}: clause {failed[1]} at event {failed[2]}")
    # ---- 3. the step-by-step API (PandoraManual.tla) ------------------------------------------------------------------
    from vp.drivers.c01_manual import run_manual
    run_manual(chk, tier, rng, tables, L, R)
    chk.rule = ("histories of check/run operations on real PandoraMachine objects: every accepted pipeline up to "
                "length 3 (quick) / 4 (thorough) over the ten kinds plus random longer walks of the documented automaton, "
                "rejected pipelines, suffix and unknown-method variants, dirty-machine and other-machine histories; "
                "distinct = distinct (history shape, pipeline, variant); plus hand-driven sessions of the step-by-step API "
                "(run_prepare, machine.run of any step in any state, run_exit; 1-3 scales, with / without right products)")
    return chk.finish()
