"""C01, step-by-step API (PandoraManual.tla): sessions of run_prepare / machine.run(<any step>) / run_exit driven by hand on
real PandoraMachine objects, every trigger recorded (result, sides executed, machine state, scale, leftover events) and
validated by TLC against the actions of PandoraManual.tla (ManualTrace.tla) - the notebooks' usage of the machine, where no
checked pipeline protects the caller from triggering a step in the wrong state."""
from __future__ import annotations

from vp import build
from vp.tracer import MachineTracer, project_machine

CV = ["aggregation", "optimization", "semantic_segmentation", "cost_volume_confidence"]
DM = ["filter", "refinement", "validation", "multiscale"]


def doc_delta(q, k):
    if q == "begin" and k == "matching_cost":
        return "cost_volume"
    if q == "cost_volume" and k in CV:
        return "cost_volume"
    if q == "cost_volume" and k == "disparity":
        return "disp_map"
    if q == "disp_map" and k in DM:
        return "disp_map"
    return None


def _legal(q, scale, rmap):
    ks = [k for k in build.KINDS if doc_delta(q, k) and (rmap or k != "validation")]
    return ks


def gen_sessions(tier, rng):
    """[(ns, rmap, [kind | '#exit' | '#prepare'])]: '#prepare' / '#exit' inside a list start / end a session on the SAME machine."""
    out = []
    prefixes = {"begin": [], "cost_volume": ["matching_cost"], "disp_map": ["matching_cost", "disparity"]}
    # every kind in every documented state, then a legal continuation
    for ns in (1, 2):
        for rmap in (False, True):
            for q, pre in prefixes.items():
                for k in build.KINDS:
                    if k == "validation" and not rmap:
                        continue
                    out.append((ns, rmap, ["#prepare"] + pre + [k, "matching_cost", "disparity", "filter", "multiscale", "matching_cost",
                                                                 "disparity", "multiscale", "refinement", "#exit"]))
    # triggers on a machine that was never prepared / after run_exit; two sessions on one machine object
    out.append((1, False, ["matching_cost", "disparity", "#prepare", "matching_cost", "disparity", "#exit", "filter", "matching_cost"]))
    out.append((2, True, ["#prepare", "matching_cost", "disparity", "validation", "multiscale", "matching_cost", "#exit",
                          "#prepare", "disparity", "matching_cost", "aggregation", "disparity", "multiscale", "multiscale",
                          "matching_cost", "disparity", "validation", "multiscale", "filter", "#exit"]))
    # random walks: mostly legal triggers, some arbitrary ones
    for _ in range(60 if tier == "quick" else 600):
        ns = rng.choice((1, 2, 2, 3))
        rmap = rng.random() < 0.5
        seq = ["#prepare"]
        q, scale = "begin", ns - 1
        for _ in range(rng.randint(3, 12)):
            alphabet = [k for k in build.KINDS if rmap or k != "validation"]
            legal = _legal(q, scale, rmap)
            k = rng.choice(legal) if (legal and rng.random() < 0.7) else rng.choice(alphabet)
            seq.append(k)
            d = doc_delta(q, k)
            if d:
                if k == "multiscale":
                    if scale > 0:
                        q, scale = "begin", scale - 1
                else:
                    q = d
        seq.append("#exit")
        if rng.random() < 0.3:
            seq += ["#prepare", "matching_cost", "disparity", "#exit"]
        out.append((ns, rmap, seq))
    return out


def _snapshot(m):
    return tuple(id(getattr(m, a, None)) for a in ("left_cv", "right_cv", "left_disparity", "right_disparity", "left_img", "right_img")) \
        + (m.state, getattr(m, "current_scale", None))


def drive(tid, ns, rmap, seq, L, R):
    from transitions import MachineError
    from pandora.state_machine import PandoraMachine
    kinds = [k for k in seq if not k.startswith("#")]
    cfg, names = build.pipeline_cfg(kinds + (["validation"] if rmap and "validation" not in kinds else []))
    it = iter(names)
    machine = PandoraMachine()
    ops = []
    with MachineTracer(machine) as tr:
        for k in seq:
            if k == "#prepare":
                if ns > 1:
                    machine.run_prepare(cfg, L, R, scale_factor=2, num_scales=ns)
                else:
                    machine.run_prepare(cfg, L, R)
                ops.append({"ev": "Prepare", "ns": ns, "rmap": rmap})
                continue
            if k == "#exit":
                machine.run_exit()
                pm = project_machine(machine)
                ops.append({"ev": "Exit", "ms": pm["ms"], "nev": pm["nev"]})
                continue
            name, kind, _ = next(it)
            before = _snapshot(machine)
            n0 = len(tr.events)
            exc = None
            try:
                machine.run(name, cfg)
                res = "ok"
            except (MachineError, KeyError, AttributeError) as e:
                res, exc = "error", repr(e)[:160]
            evs = [e for e in tr.events[n0:] if e["ev"] == "RunCb"]
            if res == "ok" and not evs and _snapshot(machine) == before:
                res = "noop"
            pm = project_machine(machine)
            sc = getattr(machine, "current_scale", 0)
            ops.append({"ev": "Trig", "kind": kind, "name": name, "res": res,
                        "sides": [e["side"] for e in evs if e["kind"] == kind] + ["?" + e["kind"] for e in evs if e["kind"] != kind],
                        "ms": pm["ms"], "scale": int(sc) if sc is not None else 0, "nev": pm["nev"],
                        "unchanged": _snapshot(machine) == before, "exc": exc})
    return {"id": tid, "ns": ns, "rmap": rmap, "ops": ops}


def run_manual(chk, tier, rng, tables, L, R):
    # ---- model: the tables realise the documented behaviour trigger by trigger ---------------------------------
    sfx = "" if tier == "quick" else "_thorough"
    res = chk.tlc("MC_Manual", f"MC_Manual{sfx}.cfg", label="manual", include=[tables], workers=8, timeout=600)
    for inv in res.invariant_violations:
        chk.violation("model:" + inv, {"model": "MC_Manual", "invariant": inv}, {"tlc": res.trace_text()},
                      "step-by-step API: the extracted run table violates " + inv)
    v1 = chk.tlc("MC_Manual", "MC_Manual_vac.cfg", label="manual_vac1", include=[tables], workers=4, expect_ok=False)
    v2 = chk.tlc("MC_Manual", "MC_Manual_vac2.cfg", label="manual_vac2", include=[tables], workers=4, expect_ok=False)
    if not res.invariant_violations and ("NeverSecondScale" not in v1.invariant_violations or "NeverNoop" not in v2.invariant_violations):
        from vp.core import MachineryFailure
        raise MachineryFailure("vacuity gate (MC_Manual): second scale with right products / refused multiscale not reachable")
    # ---- trace validation of hand-driven real machines -------------------------------------------------------------
    traces = []
    for n, (ns, rmap, seq) in enumerate(gen_sessions(tier, rng)):
        traces.append(drive(f"m{n}", ns, rmap, seq, L, R))
        chk.count(key=("manual", ns, rmap, tuple(seq)))
    for t in traces[:2]:
        chk.sample({"id": t["id"], "ns": t["ns"], "rmap": t["rmap"], "ops": t["ops"][:8]})
    slim = [{"id": t["id"], "ops": [{k: v for k, v in o.items() if k not in ("exc", "name")} for o in t["ops"]]} for t in traces]
    verdicts = chk.tlc_cases("ManualTrace", "ManualTrace.cfg", slim, label="mantrace", chunk=300, include=[tables])
    by_id = {t["id"]: t for t in traces}
    for tid, v in verdicts.items():
        t = by_id[tid]
        for pos, clause in v["failed"]:
            op = t["ops"][pos - 1]
            prev = [o.get("kind", o["ev"]) for o in t["ops"][:pos - 1]][-4:]
            feat = {"op": "manual", "clause": "manual:" + clause, "kind": op.get("kind"), "observed": op.get("res"),
                    "ms_after": op.get("ms"), "ns": t["ns"], "rmap": t["rmap"]}
            chk.violation("manual:" + clause, feat, {"session": t, "failed": [pos, clause]},
                          f"session {tid} (ns={t['ns']}, right products={t['rmap']}) event #{pos} {op.get('kind', op['ev'])} after {prev}: "
                          f"clause {clause}, observed {op.get('res')} -> {op.get('ms')}")
    chk.extra["manual_sessions"] = {"sessions": len(traces), "triggers": sum(1 for t in traces for o in t["ops"] if o["ev"] == "Trig"),
                                    "by_result": {r: sum(1 for t in traces for o in t["ops"] if o.get("res") == r) for r in ("ok", "noop", "error")}}

    # ---- specification -> code: every session TLC enumerates (each documented state reached by a legal prefix, then every sequence of
    # <= 2 (quick) / 3 (thorough) triggers over the ten kinds, 1-2 scales, with / without right products) replayed into a real machine ----
    gen = chk.tlc("MC_ManualGen", f"MC_ManualGen{sfx}.cfg", label="manual_gen", include=[tables], workers=1, timeout=900)
    for inv in gen.invariant_violations:
        chk.violation("model:" + inv, {"model": "MC_ManualGen", "invariant": inv}, {"tlc": gen.trace_text()}, "")
    behs = [v for tag, v in gen.printed if tag == "BEH" and isinstance(v, dict)]
    if len(behs) < 1000:
        from vp.core import MachineryFailure
        raise MachineryFailure(f"only {len(behs)} step-by-step sessions generated")
    nrep = 0
    for n, b in enumerate(behs):
        kinds = [t["kind"] for t in b["trig"]]
        t = drive(f"g{n}", b["ns"], b["rmap"], ["#prepare"] + kinds + ["#exit"], L, R)
        chk.count(key=("manual_gen", b["ns"], b["rmap"], tuple(kinds)))
        nrep += 1
        obs = [o for o in t["ops"] if o["ev"] == "Trig"]
        bad = None
        for j, (want, o) in enumerate(zip(b["trig"], obs)):
            for fld in ("res", "sides", "ms", "scale"):
                if list(want[fld]) != list(o[fld]) if fld == "sides" else want[fld] != o[fld]:
                    bad = (j, fld, want[fld], o[fld])
                    break
            if bad is None and o["res"] != "ok" and not o["unchanged"]:
                bad = (j, "refusal_is_noop", True, False)
            if bad:
                break
        ex = t["ops"][-1]
        if bad is None and (ex["ms"] != b["ms"] or ex["nev"] != 0):
            bad = (len(obs), "exit_initial", b["ms"], ex["ms"])
        if bad:
            j, fld, w, g = bad
            chk.violation("manual:replay_" + fld, {"op": "manual_replay", "clause": "manual:replay_" + fld, "kind": kinds[j] if j < len(kinds) else "exit",
                                                   "state_before": (b["trig"][j - 1]["ms"] if j > 0 else "begin"), "ns": b["ns"], "rmap": b["rmap"]},
                          {"behaviour": b, "session": t},
                          f"session {kinds} (ns={b['ns']}, right products={b['rmap']}): trigger #{j + 1} - specification says {fld}={w}, the machine did {g}")
    chk.extra["manual_replayed_sessions"] = nrep
