"""C02 - the cost volume holds the configured similarity measure, NaN where not computable.

Trace validation (B3): the real matching_cost step (allocate, validity_mask, compute_cost_volume, cv_masked, driven
through PandoraMachine.run_prepare / run) on structurally enumerated index cases (size x window x subpix x interval
position x mask layout x band) with sampled integer radiometry; every cell of every cost volume is compared by TLC
with Cost(P, r, c, D) of MatchingCost.tla (exact for sad/ssd/census, integer enclosure for zncc), NaN iff
~Computable.  Model checking (E): MC_MatchingCost checks small-scope theorems of the specification itself.
"""
from __future__ import annotations

import itertools

import numpy as np

from vp import dataplane as dp
from vp.core import Check


def structured_cases(tier, rng):
    """Index-case enumeration; one radiometry draw per case."""
    cases = []
    wins = [1, 3, 5]
    intervals = [(a, b) for a in range(-3, 4) for b in range(a, 4)]
    outside = [(-9, -7), (6, 8), (-12, -12), (11, 12)]
    meas = ["sad", "ssd", "census", "zncc"]
    masks = ["none", "left", "right", "both"]
    combos = []
    for measure in meas:
        for win in wins:
            if measure == "census" and win == 1:
                continue
            if measure == "zncc" and win != 3:
                continue
            for s in (1, 2, 4):
                if measure == "zncc" and s == 4:
                    continue
                for drow, dcol in itertools.product((0, 1, 2), (0, 1, 2, 4)):
                    combos.append((measure, win, s, win + drow, win + dcol))
    rng.shuffle(combos)
    n = 260 if tier == "quick" else 2600
    k = 0
    while len(cases) < n:
        measure, win, s, rows, cols = combos[k % len(combos)]
        k += 1
        iv = intervals[rng.randint(len(intervals))] if rng.rand() < 0.85 else outside[rng.randint(len(outside))]
        mm = masks[rng.randint(len(masks))]
        nb = 2 if rng.rand() < 0.2 else 1
        grid = rng.rand() < 0.25
        vmax = 3
        if measure == "zncc":
            vmax = 2 if s == 1 else 1      # keeps every product of the integer enclosure below 2^31
        cases.append(dp.gen_problem(rng, rows=rows, cols=cols, win=win, s=s, measure=measure, disp=iv, vmax=vmax,
                                    nbands=nb, mask_mode=mm, grid=grid))
    return cases


def random_cases(tier, rng):
    """larger randomised cases: sizes up to 9x16 (12x24 thorough), intervals up to +-6, grids, masks anywhere"""
    cases = []
    n = 60 if tier == "quick" else 700
    for _ in range(n):
        measure = ["sad", "ssd", "census", "zncc"][rng.randint(4)]
        win = 3 if measure == "zncc" else [1, 3, 5][rng.randint(3)] if measure != "census" else [3, 5][rng.randint(2)]
        s = [1, 2, 4][rng.randint(3)] if measure != "zncc" else [1, 2][rng.randint(2)]
        rows = rng.randint(win, (9 if tier == "quick" else 12) + 1)
        cols = rng.randint(win + 1, (16 if tier == "quick" else 24) + 1)
        a = rng.randint(-6, 7)
        b = rng.randint(a, min(a + 6, 6) + 1)
        vmax = 3 if measure != "zncc" else (2 if s == 1 else 1)
        # radiometry in halves / quarters (float images), and images that code their masks differently
        iq = [1, 1, 2, 4][rng.randint(4)]
        conv = None if rng.rand() < 0.5 else (dp.CONVENTIONS[rng.randint(len(dp.CONVENTIONS))],
                                              dp.CONVENTIONS[rng.randint(len(dp.CONVENTIONS))])
        cases.append(dp.gen_problem(rng, rows=rows, cols=cols, win=win, s=s, measure=measure, disp=(a, b), vmax=vmax,
                                    nbands=1 if rng.rand() < 0.8 else 3, mask_mode=["none", "left", "right", "both"][rng.randint(4)],
                                    grid=rng.rand() < 0.4, iq=iq, conv=conv))
    return cases


def features(prob, clause, detail=None, exc=None):
    a, b = dp.global_interval(prob)
    f = {"clause": clause, "measure": prob["measure"], "subpix": prob["s"],
         "grid": prob["disp"][0] == "grid",
         "interval_exceeds_width": bool(max(abs(a), abs(b)) >= prob["cols"]),
         "masks": ("L" if prob["mL"] is not None else "") + ("R" if prob["mR"] is not None else ""),
         "multiband": prob["bands"] is not None, "fractional_radiometry": prob.get("iq", 1) > 1,
         "mask_conventions_differ": prob.get("conv") is not None and prob["conv"][0] != prob["conv"][1]}
    if exc is not None:
        f["exception"] = type(exc).__name__
    return f


def run_mc(prob):
    """real matching_cost step through the machine; returns the left cost-volume dataset"""
    left, right = dp.make_datasets(prob)
    cfg = {"pipeline": {"matching_cost": dp.mc_cfg(prob)}}
    r = dp.StepRunner(left, right, cfg)
    r.step()
    cv = r.m.left_cv
    r.close()
    return cv


def summary(prob):
    return {"rows": prob["rows"], "cols": prob["cols"], "win": prob["win"], "subpix": prob["s"],
            "measure": prob["measure"], "interval": list(dp.global_interval(prob)), "grid": prob["disp"][0] == "grid",
            "masks": [prob["mL"] is not None, prob["mR"] is not None], "bands": prob["bands"]}


def run(tier):
    chk = Check("C02", tier)
    rng = np.random.RandomState(chk.seed + 202)
    chk.assumptions += [
        "radiometry = k/iq with k in 0..3 (0..2 / 0..1 for zncc) and iq in {1,2,4}, so that sad*s*iq, ssd*(s*iq)^2 and census costs are exact in float32",
        "zncc compared through an integer enclosure of round(100*zncc) (resolution 0.02), windows 3x3, subpix 1-2",
        "cmax: census window^2, zncc 1, sad/ssd int(largest left-right radiometric difference^(1|2) * window^2)",
        "step = 1 (the only value Pandora accepts)",
    ]
    # ---- E: small-scope theorems of the specification ---------------------------------------------------------
    res = chk.tlc("MC_MatchingCost", "MC_MatchingCost.cfg", label="mc_theorems", workers=8, timeout=900)
    for inv in res.invariant_violations:
        chk.violation("spec:" + inv, {"model": "MC_MatchingCost", "invariant": inv}, {"tlc": res.trace_text()},
                      "the specification itself violates a sanity theorem")
    # ---- B3: real executions -------------------------------------------------------------------------------
    probs = structured_cases(tier, rng) + random_cases(tier, rng)
    cases, by_id = [], {}
    for n, prob in enumerate(probs):
        cid = f"mc{n}"
        key = (prob["measure"], prob["win"], prob["s"], prob["rows"], prob["cols"], dp.global_interval(prob),
               prob["disp"][0], prob["mL"] is not None, prob["mR"] is not None, prob["bands"] is not None)
        chk.count(key)
        try:
            cv = run_mc(prob)
        except Exception as exc:  # pylint: disable=broad-except
            chk.violation("total", features(prob, "total", exc=exc), {"problem": summary(prob), "exception": repr(exc)[:300]},
                          f"matching_cost raised {type(exc).__name__} on {summary(prob)}")
            continue
        case = {"id": cid, "step": "matching_cost", "P": dp.problem_json(prob), "out": dp.mc_out(cv, prob)}
        cases.append(case)
        by_id[cid] = prob
        if len(chk.samples) < 3:
            chk.sample({"problem": summary(prob), "cv_row_1": case["out"]["cv"][0][:3]})
    verdicts = chk.tlc_cases("PipelineTrace", "PipelineTrace.cfg", cases, label="c02", chunk=60, parallel=12)
    for cid, v in verdicts.items():
        for clause in v["failed"]:
            prob = by_id[cid]
            chk.violation(clause, features(prob, clause), {"problem": summary(prob), "detail": v["detail"],
                                                           "P": next(c for c in cases if c["id"] == cid)["P"]},
                          f"{cid}: {clause} {v['detail']} on {summary(prob)}")
    chk.rule = ("index cases (measure x window x subpix x rows in win..win+2 x cols in win..win+4 x interval inside/around/"
                "outside the image x mask layout x mono/multi-band x scalar/grid) with one radiometry draw each, plus larger "
                "random problems; distinct = distinct structural tuples")
    return chk.finish()
