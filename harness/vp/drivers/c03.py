"""C03 - winner-takes-all picks each pixel's best cost inside its disparity interval.

Direct drive of the real WinnerTakesAll.to_disp on arbitrary cost volumes (rank-encoded float costs, ties, NaN rows,
min- and max-type, invalid_disparity in {-9999, NaN, 7}), at shapes straddling the internal 100-pixel blocks; TLC
decides every pixel against Wta() of Disparity.tla and against the C03 statement written out independently, plus the
frame clauses (cost volume bit-identical, flags and confidence bands carried over).  Pipeline-level cases (matching_cost
then disparity on the real machine) tie "inside the pixel's interval" to the NaN rule of C02.
"""
from __future__ import annotations

import numpy as np

from vp import build
from vp import dataplane as dp
from vp.core import Check
from vp.project import NAN, conf_same, conf_snapshot, enc_int, enc_rank, enc_scaled, enc_value, same_bits


def gen_costs(rng, rows, cols, nd, style):
    if style == "ties":
        c = rng.randint(0, 3, size=(rows, cols, nd)).astype(np.float32)
    elif style == "float":
        c = rng.randn(rows, cols, nd).astype(np.float32)
    elif style == "close64":
        # float64 costs (API / plugin volumes) that differ by less than the float32 resolution: still distinct costs
        c = 1.0 + rng.randint(0, 4, size=(rows, cols, nd)) * 1e-10 + rng.randint(0, 2, size=(rows, cols, nd)) * 1.0
    else:
        c = (rng.randint(0, 50, size=(rows, cols, nd)) / 7.0).astype(np.float32)
    nanp = rng.choice([0.0, 0.2, 0.6])
    c[rng.rand(rows, cols, nd) < nanp] = np.nan
    # some pixels with no computable cost at all, some fully computable
    allnan = rng.rand(rows, cols) < 0.1
    c[allnan] = np.nan
    return c


def shapes(tier):
    edge = [1, 2, 99, 100, 101, 199, 200, 201]
    small = [(1, 1), (1, 5), (2, 3), (3, 7), (4, 4)]
    if tier == "quick":
        strips = [(k, 3) for k in edge] + [(3, k) for k in edge] + [(101, 102)]
        return small + strips
    return small + [(k, 3) for k in edge] + [(3, k) for k in edge] + [(a, b) for a in (99, 100, 101, 201) for b in (100, 101, 200)]


def run(tier):
    from pandora import disparity
    chk = Check("C03", tier)
    rng = np.random.RandomState(chk.seed + 303)
    chk.assumptions += [
        "float costs are compared through an order-preserving rank encoding (winner-takes-all only compares costs)",
        "costs are finite or NaN; +inf (min-type) / -inf (max-type) costs only at pixels that also hold a finite cost",
    ]
    res = chk.tlc("MC_Disparity", "MC_Disparity.cfg", label="wta_theorems", workers=8, timeout=600)
    for inv in res.invariant_violations:
        chk.violation("spec:" + inv, {"model": "MC_Disparity", "invariant": inv}, {"tlc": res.trace_text()}, "")
    cases, meta = [], {}
    n = 0
    reps = 1 if tier == "quick" else 2
    for (rows, cols) in shapes(tier):
        for rep in range(reps):
            for type_measure in ("min", "max"):
                nd = int(rng.randint(2, 6))
                subpix = int(rng.choice([1, 2, 4]))
                style = ["ties", "float", "sevenths"][n % 3] if n % 5 != 4 else "close64"
                inv = [-9999, float("nan"), 7][n % 3]
                dmin = int(rng.randint(-3, 2))
                costs = gen_costs(rng, rows, cols, nd, style)
                with_inf = (n % 4 == 1)
                if with_inf:
                    # infinitely bad costs (a plugin's cost volume may hold them): +inf for min-type, -inf for max-type, and
                    # only at pixels that keep a finite cost, so that the winner is not in question
                    cell = (rng.rand(rows, cols, nd) < 0.25) & ~np.isnan(costs)
                    keep = np.zeros_like(cell)
                    first = np.argmax(np.isfinite(costs), axis=2)
                    np.put_along_axis(keep, first[:, :, None], True, axis=2)
                    costs[cell & ~keep] = np.inf if type_measure == "min" else -np.inf
                vm = rng.choice([0, 0, 0, 1, 2, 4, 64, 66, 128], size=(rows, cols))
                with_conf = (n % 2 == 0)
                conf = (["confidence_from_ambiguity", "confidence_from_x.1"], rng.rand(rows, cols, 2)) if with_conf else None
                # bands are float32 when Pandora's own methods made them; a plugin or the API may hand over float64
                cdt = np.float64 if n % 4 == 2 else np.float32
                cv = build.make_cv(costs, dmin=dmin, subpix=subpix, type_measure=type_measure, vm=vm, conf=conf, conf_dtype=cdt,
                                   cv_dtype=np.float64 if style == "close64" else np.float32)
                again = (n % 3 == 1)
                before = cv["cost_volume"].data.copy()
                csnap = conf_snapshot(cv)
                n += 1
                cid = f"w{n}"
                chk.count((rows, cols, nd, subpix, type_measure, style, str(inv)))
                feat = {"rows": rows, "cols": cols, "nd": nd, "subpix": subpix, "type": type_measure, "style": style,
                        "invalid_disparity": str(inv), "blocks": rows > 100 or cols > 100,
                        "infinite_costs": with_inf, "conf_dtype": np.dtype(cdt).name if with_conf else None,
                        "float64_costs": style == "close64", "applied_again_after_later_steps": again}
                try:
                    d = disparity.AbstractDisparity(disparity_method="wta", invalid_disparity=inv)
                    out = d.to_disp(cv)
                    if again:
                        # history on one cost volume: the first map is worked on by later steps (they raise their bits in place), then
                        # the disparity step is applied again - the fresh map carries the cost volume's flags, nothing else
                        out["validity_mask"].data[...] |= np.uint16(8 + 256)
                        out["disparity_map"].data[...] += 0.25
                        out = d.to_disp(cv)
                except Exception as exc:  # pylint: disable=broad-except
                    chk.violation("total", dict(feat, exception=type(exc).__name__), {"exception": repr(exc)[:300]},
                                  f"to_disp raised on {feat}")
                    continue
                frame_conf = conf_same(csnap, out) if with_conf else ("confidence_measure" not in out.data_vars)
                case = {"id": cid, "step": "disparity", "rows": rows, "cols": cols, "type": type_measure,
                        "first": dmin * subpix, "inv": enc_value(inv, subpix),
                        "cv": enc_rank(costs), "vm": enc_int(vm),
                        "out": {"disp": enc_scaled(out["disparity_map"].data, subpix),
                                "vm": enc_int(out["validity_mask"].data),
                                "frame_cv": same_bits(before, cv["cost_volume"].data), "frame_conf": bool(frame_conf)}}
                cases.append(case)
                meta[cid] = feat
                if len(chk.samples) < 3 and rows * cols < 30:
                    chk.sample({"features": feat, "cv": case["cv"], "disp": case["out"]["disp"]})
    # pipeline level: matching_cost then disparity on the real machine; winner inside the pixel's interval
    for k in range(20 if tier == "quick" else 150):
        measure = ["sad", "census", "zncc", "ssd"][k % 4]
        win = 3 if measure in ("census", "zncc") else [1, 3][k % 2]
        s = [1, 2, 4][k % 3] if measure != "zncc" else 1
        a = int(rng.randint(-3, 2))
        prob = dp.gen_problem(rng, rows=win + 2, cols=win + 5, win=win, s=s, measure=measure, disp=(a, a + int(rng.randint(0, 4))),
                              vmax=3 if measure != "zncc" else 2, mask_mode=["none", "both"][k % 2], grid=(k % 3 == 0),
                              inv=[-9999, float("nan")][k % 2])
        left, right = dp.make_datasets(prob)
        cfg = {"pipeline": {"matching_cost": dp.mc_cfg(prob), "disparity": {"disparity_method": "wta", "invalid_disparity": prob["inv"]}}}
        r = dp.StepRunner(left, right, cfg)
        r.step()
        cvd = r.m.left_cv
        before = cvd["cost_volume"].data.copy()
        vm_before = cvd["validity_mask"].data.copy()
        r.step()
        out = r.m.left_disparity
        r.close()
        n += 1
        cid = f"p{n}"
        gmin, _ = dp.global_interval(prob)
        feat = {"rows": prob["rows"], "cols": prob["cols"], "pipeline": True, "measure": measure, "subpix": s,
                "type": str(cvd.attrs["type_measure"]), "grid": prob["disp"][0] == "grid"}
        chk.count(("pipe", measure, win, s, k))
        # costs of the real cost volume; NaN outside the pixel's interval (C02), hence the winner is inside it
        case = {"id": cid, "step": "disparity", "rows": prob["rows"], "cols": prob["cols"], "type": str(cvd.attrs["type_measure"]),
                "first": gmin * s, "inv": enc_value(prob["inv"], s), "cv": enc_rank(before), "vm": enc_int(vm_before),
                "out": {"disp": enc_scaled(out["disparity_map"].data, s), "vm": enc_int(out["validity_mask"].data),
                        "frame_cv": same_bits(before, cvd["cost_volume"].data), "frame_conf": "confidence_measure" not in out.data_vars}}
        # interval clause checked here directly on the logged data (every valid winner within [dmin(p), dmax(p)])
        P = dp.problem_json(prob)
        dm = np.asarray(out["disparity_map"].data, dtype=np.float64)
        valid = ~np.isnan(before).all(axis=2)
        inside = (dm * 8 >= np.asarray(P["dmin8"])) & (dm * 8 <= np.asarray(P["dmax8"]))
        if not bool(np.all(inside[valid])):
            chk.violation("wta_in_interval", feat, {"problem": P}, "a winner lies outside its pixel's interval")
        cases.append(case)
        meta[cid] = feat
    verdicts = chk.tlc_cases("PipelineTrace", "PipelineTrace.cfg", cases, label="c03", chunk=12, parallel=14, heap="6g", timeout=1500)
    for cid, v in verdicts.items():
        for clause in v["failed"]:
            chk.violation(clause, dict(meta[cid], clause=clause), {"detail": v["detail"], "features": meta[cid]},
                          f"{cid}: {clause} {v['detail']} {meta[cid]}")
    chk.rule = ("cost volumes at shapes straddling the 100/200 block boundaries (strips in quick, squares in thorough) x min/max x "
                "2-5 samples x subpix x cost style (ties/float/rational) x NaN density x invalid_disparity in {-9999, NaN, 7}, plus "
                "matching_cost+disparity pipelines on the real machine; distinct = distinct parameter tuples")
    return chk.finish()
