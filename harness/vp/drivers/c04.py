"""C04 - validity flags, NaN costs and invalid disparities tell one coherent story.

(E) TLC: PandoraPipeline.tla composes the step operators (matching cost, winner-takes-all, refinement, median filter, cross-checking,
    left and right products) and checks over every legal pipeline of up to 5-6 steps on every problem of its scope: Coherent,
    NoUndocumentedBit, NeverBoth, FinalDispInInterval, RefineHalfSample, OnlyOwnBitsAdded, MaskFrozenByFilter (with vacuity gates).
    MC_MatchingCost proves on small scopes that the three characterisations of an invalid pixel coincide for the
    specification (T_Coherent), that border pixels are {0} and that no undocumented bit is produced (T_Border).
(B3) real executions: (a) the matching_cost step on mask/nodata layouts x intervals x windows: flags compared bit-set for
    bit-set with Criteria!MatchingBits, and cost NaN pattern with ~Computable (clauses flags / cost_value);
    (b) legal pipelines generated from the documented automaton, including repeated refinement / filter / validation
    steps, run step by step on the real machine, left and right products: after EVERY step TLC checks
    undocumented_bit, only_own_bits_added, bit_removed, border_bit0_only and (before validation)
    invalid_flag_iff_invalid_disparity on the bit-set projection of the real masks.
"""
from __future__ import annotations

import numpy as np

from vp import dataplane as dp
from vp.core import Check
from vp.drivers.c02 import run_mc, summary
from vp.project import enc_int, enc_scaled, enc_value


def gen_pipeline(rng, tier):
    """a legal pipeline (walk of the documented automaton) with repetitions; returns list of (name, cfg)"""
    steps = []
    measure = ["sad", "ssd", "census", "zncc"][rng.randint(4)]
    win = 3 if measure in ("census", "zncc") else [1, 3, 5][rng.randint(3)]
    s = [1, 2, 4][rng.randint(3)]
    steps.append(("matching_cost", {"matching_cost_method": measure, "window_size": win, "subpix": s}))
    if rng.rand() < 0.3:
        steps.append(("aggregation", {"aggregation_method": "cbca", "cbca_distance": int(rng.randint(1, 4))}))
    nconf = rng.randint(0, 3)
    conf_methods = ["ambiguity", "std_intensity", "risk", "interval_bounds"]
    for k in range(nconf):
        m = conf_methods[rng.randint(4)]
        steps.append((f"cost_volume_confidence.{k}", {"confidence_method": m}))
    inv = [-9999, "NaN", 77][rng.randint(3)]
    steps.append(("disparity", {"disparity_method": "wta", "invalid_disparity": inv}))
    n_after = rng.randint(1, 6)
    counts = {}
    has_val = False
    for _ in range(n_after):
        k = ["refinement", "filter", "validation", "refinement", "filter"][rng.randint(5)]
        i = counts.get(k, 0)
        counts[k] = i + 1
        name = k if i == 0 else f"{k}.{i}"
        if k == "refinement":
            c = {"refinement_method": ["vfit", "quadratic"][rng.randint(2)]}
        elif k == "filter":
            fm = ["median", "bilateral", "median"][rng.randint(3)]
            c = {"filter_method": fm}
            if fm == "median":
                c["filter_size"] = int([3, 5][rng.randint(2)])
        else:
            c = {"validation_method": "cross_checking_accurate", "cross_checking_threshold": float(rng.choice([0.0, 1.0, 2.0]))}
            if rng.rand() < 0.5:
                c["interpolated_disparity"] = ["mc-cnn", "sgm"][rng.randint(2)]
            has_val = True
        steps.append((name, c))
    return steps, dict(measure=measure, win=win, s=s, inv=inv, has_val=has_val)


def run(tier):
    chk = Check("C04", tier)
    rng = np.random.RandomState(chk.seed + 404)
    chk.assumptions += [
        "invalid_disparity is NaN or lies outside the searched interval (domain of the statement)",
        "bits are compared as SETS: the projection of a mask value v is {k : v & (1<<k)}; values >= 65536 or < 0 are ill-formed",
    ]
    thor = tier == "thorough"
    res = chk.tlc("MC_MatchingCost", "MC_MatchingCost_thorough.cfg" if thor else "MC_MatchingCost.cfg", label="coherence_theorems",
                  workers=16, timeout=1800, heap="8g")
    for inv in res.invariant_violations:
        chk.violation("spec:" + inv, {"model": "MC_MatchingCost", "invariant": inv}, {"tlc": res.trace_text()}, "")
    # the step operators COMPOSED: every legal pipeline up to 5 (6 thorough) steps on every small problem, both sides
    pm = chk.tlc("PandoraPipeline", "PandoraPipeline_thorough.cfg" if thor else "PandoraPipeline.cfg", label="pipeline_model", workers=16, timeout=1800, heap="8g")
    for inv in pm.invariant_violations + pm.property_violations:
        chk.violation("spec:" + inv, {"model": "PandoraPipeline", "invariant": inv}, {"tlc": pm.trace_text()}, "the composed step operators violate " + inv)
    if pm.temporal:
        chk.violation("spec:action_property", {"model": "PandoraPipeline", "invariant": "OnlyOwnBitsAdded/MaskFrozenByFilter"}, {"tlc": pm.trace_text()}, "")
    for vc, name in (("PandoraPipeline_vac.cfg", "NoValidationFlag"), ("PandoraPipeline_vac2.cfg", "NoRefinedDisparity")):
        v = chk.tlc("PandoraPipeline", vc, label="vac_" + name, workers=8, timeout=600, expect_ok=False)
        if name not in v.invariant_violations:
            from vp.core import MachineryFailure
            raise MachineryFailure(f"vacuity gate: {name} is not violated in the pipeline model")
    cases, meta = [], {}
    # ---- (a) matching_cost flags on mask layouts -----------------------------------------------------------------
    n = 0
    for k in range(120 if not thor else 1500):
        measure = ["sad", "census", "ssd"][k % 3]
        win = [1, 3, 5][k % 3] if measure != "census" else [3, 5][k % 2]
        s = [1, 2, 4][(k // 3) % 3]
        a = int(rng.randint(-4, 4))
        b = int(rng.randint(a, min(a + 5, 5) + 1))
        prob = dp.gen_problem(rng, rows=win + int(rng.randint(0, 3)), cols=win + int(rng.randint(1, 6)), win=win, s=s,
                              measure=measure, disp=(a, b), mask_mode=["left", "right", "both", "both"][k % 4],
                              grid=(k % 5 == 0),
                              conv=None if k % 3 else (dp.CONVENTIONS[(k // 3) % 5], dp.CONVENTIONS[(k // 3 + 1 + k % 2) % 5]))
        n += 1
        cid = f"m{n}"
        chk.count(("mc", measure, win, s, a, b, k % 4, prob["rows"], prob["cols"]))
        try:
            cv = run_mc(prob)
        except Exception as exc:  # pylint: disable=broad-except
            chk.violation("total", {"step": "matching_cost", "exception": type(exc).__name__}, {"problem": summary(prob)}, repr(exc)[:200])
            continue
        cases.append({"id": cid, "step": "matching_cost", "P": dp.problem_json(prob), "out": dp.mc_out(cv, prob)})
        meta[cid] = {"stage": "matching_cost", "problem": summary(prob)}
    # ---- (b) legal pipelines, every step, both sides ----------------------------------------------------------------
    npipes = 60 if not thor else 700
    for k in range(npipes):
        steps, info = gen_pipeline(rng, tier)
        if k % 6 == 5:
            # two validation steps that BOTH fill occlusions / mismatches (a pixel occluded in both passes already carries bit 4 or 5)
            di = [i for i, (nm, _) in enumerate(steps) if nm == "disparity"][0]
            m1, m2 = [("mc-cnn", "mc-cnn"), ("sgm", "sgm"), ("mc-cnn", "sgm"), ("sgm", "mc-cnn")][(k // 6) % 4]
            steps = steps[:di + 1] + [("validation", {"validation_method": "cross_checking_accurate", "cross_checking_threshold": 0.0, "interpolated_disparity": m1}),
                                      ("validation.1", {"validation_method": "cross_checking_accurate", "cross_checking_threshold": 0.0, "interpolated_disparity": m2})]
            info["has_val"] = True
        win, s = info["win"], info["s"]
        a = int(rng.randint(-3, 2))
        b = a + int(rng.randint(1, 5))
        inv_num = float("nan") if info["inv"] == "NaN" else float(info["inv"])
        prob = dp.gen_problem(rng, rows=win + 3 + int(rng.randint(0, 3)), cols=win + 6 + int(rng.randint(0, 5)), win=win, s=s,
                              measure=info["measure"], disp=(a, b), vmax=3 if info["measure"] != "zncc" else 2,
                              mask_mode=["none", "left", "right", "both"][k % 4],
                              conv=None if k % 3 else (dp.CONVENTIONS[(k // 3) % 5], dp.CONVENTIONS[(k // 3 + 1 + k % 2) % 5]))
        left, right = dp.make_datasets(prob)
        cfg = {"pipeline": {name: dict(c) for name, c in steps}}
        names = [nm for nm, _ in steps]
        chk.count(("pipe", tuple(nm.split(".")[0] for nm in names), info["measure"], win, s, k % 4))
        if len(chk.samples) < 4:
            chk.sample({"pipeline": names, "problem": summary(prob)})
        try:
            r = dp.StepRunner(left, right, cfg)
        except Exception as exc:  # pylint: disable=broad-except
            chk.violation("total", {"step": "run_prepare", "exception": type(exc).__name__}, {"pipeline": names}, repr(exc)[:200])
            continue
        prev = {"L": None, "R": None}
        prevalid = True
        again = None
        for name, c in steps:
            kind = name.split(".")[0]
            try:
                r.step()
            except Exception as exc:  # pylint: disable=broad-except
                # totality of the steps themselves is judged by C06 / C10 / C14; here the trace simply ends
                meta[f"x{k}"] = None
                break
            if kind == "validation":
                pass
            for side, cvd, dd in (("L", r.m.left_cv, r.m.left_disparity), ("R", r.m.right_cv, r.m.right_disparity)):
                if side == "R" and not info["has_val"]:
                    continue
                has_disp = dd is not None and "disparity_map" in dd.data_vars
                ds = dd if has_disp else cvd
                if ds is None or "validity_mask" not in ds.data_vars:
                    continue
                vm = enc_int(ds["validity_mask"].data)
                after = {"vm": vm}
                if has_disp:
                    after["disp"] = enc_scaled(ds["disparity_map"].data, 1024, tol=2.0)
                n += 1
                cid = f"f{n}"
                case = {"id": cid, "step": "flags", "kind": kind, "method": str(c.get("filter_method", "")),
                        "interp": "interpolated_disparity" in c, "rows": prob["rows"], "cols": prob["cols"], "win": win,
                        "inv": enc_value(inv_num, 1024), "prevalid": bool(prevalid and kind != "validation"),
                        "hasdisp": bool(has_disp), "first": prev[side] is None,
                        "before": prev[side] if prev[side] is not None else {"vm": vm}, "after": after}
                cases.append(case)
                if kind == "disparity" and side == "L" and again is None:
                    again = (dict(case), dict(c), name)
                meta[cid] = {"stage": "pipeline", "pipeline": names, "at": name, "kind": kind, "side": side,
                             "measure": info["measure"], "subpix": s, "invalid_disparity": str(info["inv"]),
                             "repeat_index": int(name.split(".")[1]) if "." in name and name.split(".")[1].isdigit() else 0,
                             "config": c}
                prev[side] = after
            if kind == "validation":
                prevalid = False
        # API history: the disparity step applied AGAIN to the machine's cost volume, after the later steps worked on the first
        # map, must give what it gave the first time (a fresh map carries no bit of a step that has not run on it)
        if again is not None and r.pos == len(steps):
            try:
                from pandora import disparity as pdisp
                tmpl, dcfg, dname = again
                d2 = pdisp.AbstractDisparity(**dcfg).to_disp(r.m.left_cv)
                n += 1
                cid = f"f{n}"
                cases.append(dict(tmpl, id=cid, after={"vm": enc_int(d2["validity_mask"].data), "disp": enc_scaled(d2["disparity_map"].data, 1024, tol=2.0)}))
                meta[cid] = {"stage": "pipeline", "pipeline": names, "at": dname + " (applied again after the whole pipeline)", "kind": "disparity", "side": "L",
                             "measure": info["measure"], "subpix": s, "invalid_disparity": str(info["inv"]), "repeat_index": 1, "config": dcfg}
            except Exception as exc:  # pylint: disable=broad-except
                chk.violation("total", {"step": "disparity_again", "exception": type(exc).__name__}, {"pipeline": names, "exception": repr(exc)[:300]},
                              f"the disparity step applied again to the cost volume raised {exc!r}")
        try:
            r.close()
        except Exception:  # pylint: disable=broad-except
            pass
    verdicts = chk.tlc_cases("PipelineTrace", "PipelineTrace.cfg", cases, label="c04", chunk=80, parallel=12)
    for cid, v in verdicts.items():
        for clause in v["failed"]:
            m = meta[cid]
            if m["stage"] == "matching_cost":
                feat = {"clause": clause, "stage": "matching_cost"}
            else:
                feat = {"clause": clause, "stage": "pipeline", "kind": m["kind"], "repeated": m["repeat_index"] > 0,
                        "method": next((str(v2) for k2, v2 in m["config"].items() if k2.endswith("_method")), "")}
            chk.violation(clause, feat, {"meta": m, "detail": v["detail"]}, f"{cid}: {clause} {v['detail']} {m}")
    chk.rule = ("(a) matching_cost on random mask/nodata layouts x intervals x windows x subpix; (b) random walks of the documented "
                "automaton with repeated refinement/filter/validation(+filling) steps, flags of both sides after every step; "
                "distinct = distinct (stage, structural parameters)")
    return chk.finish()
