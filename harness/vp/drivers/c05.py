"""C05 - configuration checking completes, preserves and polices every parameter.

(E + B2) TLC enumerates (MC_Config over the tables of PandoraConfig.tla) every step kind x built-in method x claimed parameter x
    every value of the boundary universe (ints -2..9, floats around 0 / 1, 'NaN' / 'inf' strings, other strings, bool, null,
    unknown method), on mono- and multi-band images, proves the table's own theorems (defaults are inside their domains, the empty
    configuration is accepted, an unknown method is rejected) and prints each configuration with the specification's verdict and
    the defaults that must be filled in.  Every behaviour is replayed into the real check_pipeline_section on a fresh machine:
    accept / reject must agree (unless the table says 'unspecified'), every user key must keep its value and position, the omitted
    parameters must appear with the documented defaults, the user's dictionary must not be mutated, and checking the returned
    configuration again must return it unchanged.  Pairs of varied steps are combined in longer pipelines, and histories of
    checks with different matching-cost classes exercise the class-level schema dictionaries.
"""
from __future__ import annotations

import copy
import math

import numpy as np

from vp import build
from vp.core import Check, MachineryFailure

EMBED = {"matching_cost": (["matching_cost", "disparity"], 0), "aggregation": (["matching_cost", "aggregation", "disparity"], 1),
         "cost_volume_confidence": (["matching_cost", "cost_volume_confidence", "disparity"], 1),
         "disparity": (["matching_cost", "disparity"], 1), "refinement": (["matching_cost", "disparity", "refinement"], 2),
         "filter": (["matching_cost", "disparity", "filter"], 2), "validation": (["matching_cost", "disparity", "validation"], 2),
         "multiscale": (["matching_cost", "disparity", "multiscale"], 2)}


def dec(v):
    t = v["t"]
    if t == "int":
        return int(v["n"])
    if t == "float":
        return v["n"] / 1000.0
    if t == "str":
        return v["s"]
    if t == "bool":
        return bool(v["n"])
    return None


def same_value(a, b):
    """equality of configuration values: type-exact (1 != 1.0 != True), NaN equal to NaN"""
    if isinstance(a, float) and isinstance(b, float) and math.isnan(a) and math.isnan(b):
        return True
    return type(a) is type(b) and a == b


def same_cfg(a, b):
    if isinstance(a, dict) and isinstance(b, dict):
        return list(a.keys()) == list(b.keys()) and all(same_cfg(a[k], b[k]) for k in a)
    return same_value(a, b)


def expected_after(v):
    if isinstance(v, str) and v in ("NaN", "inf", "-inf"):
        return {"NaN": float("nan"), "inf": float("inf"), "-inf": float("-inf")}[v]
    return v


def step_cfg(beh):
    c = {beh["mkey"]: beh["method"]}
    for name, val in beh["cfg"]:
        c[name] = dec(val)
    return c


def build_pipeline(behs, with_validation=False):
    """embeds one or two varied steps in a minimal legal pipeline; returns (cfg, {step name: behaviour}, multiband).
    with_validation: a default validation step is added (configuration checking then makes a second round, images exchanged)"""
    kinds, names_of = [], {}
    multiband = max(b["multiband"] for b in behs)
    kinds_needed = [b["kind"] for b in behs]
    seq = ["matching_cost"]
    if "aggregation" in kinds_needed:
        seq.append("aggregation")
    if "cost_volume_confidence" in kinds_needed:
        seq.append("cost_volume_confidence")
    seq.append("disparity")
    for k in ("refinement", "filter", "validation", "multiscale"):
        if k in kinds_needed or (k == "validation" and with_validation):
            seq.append(k)
    pipe = {}
    varied = {}
    for k in seq:
        b = next((x for x in behs if x["kind"] == k), None)
        if b is not None:
            pipe[k] = step_cfg(b)
            varied[k] = b
        else:
            c = copy.deepcopy(build.DEFAULT_STEP_CFG[k])
            if k == "matching_cost" and multiband:
                c["band"] = "g"
            pipe[k] = c
    return {"pipeline": pipe}, varied, multiband


def run(tier):
    from pandora.check_configuration import check_pipeline_section
    from pandora.state_machine import PandoraMachine
    chk = Check("C05", tier)
    rng = np.random.RandomState(chk.seed + 505)
    chk.assumptions += [
        "'unspecified' zones of the table (bool for an int parameter, integer literal for a float parameter, eta >= 1, 'inf' for a "
        "positive float, the spelling 'mc_cnn', keys the statement does not mention): either outcome is accepted there, but "
        "preservation, non-mutation and idempotence are still demanded when the configuration is accepted",
        "values are compared type-exactly (1, 1.0 and True are different values); NaN equals NaN",
        "the input section (nodata, masks, disparity) is policed by C17",
    ]
    res = chk.tlc("MC_Config", "MC_Config.cfg", label="config_table", workers=1, timeout=600)
    for inv in res.invariant_violations:
        chk.violation("spec:" + inv, {"model": "MC_Config", "invariant": inv}, {"tlc": res.trace_text()}, "")
    behs = [v for tag, v in res.printed if tag == "BEH" and isinstance(v, dict)]
    if len(behs) < 1000:
        raise MachineryFailure(f"only {len(behs)} behaviours were generated by TLC")
    chk.extra["behaviours_generated_by_tlc"] = len(behs)
    metas = {0: (build.make_metadata(8, 10, disp=(-2, 2)), build.make_metadata(8, 10, disp=None)),
             1: (build.make_metadata(8, 10, bands=["r", "g"], disp=(-2, 2)), build.make_metadata(8, 10, bands=["r", "g"], disp=None)),
             2: (build.make_metadata(8, 10, bands=["r", "g"], disp=(-2, 2)), build.make_metadata(8, 10, bands=["g", "b"], disp=None))}

    shared = [PandoraMachine()]

    def replay(group, label, with_validation=False, reuse=False):
        cfg, varied, multiband = build_pipeline(group, with_validation)
        # reuse: the machine object has already checked other pipelines (accepted and rejected ones): nothing of them may show
        machine = shared[0] if reuse else PandoraMachine()
        user = copy.deepcopy(cfg)
        verdicts = [b["verdict"] for b in group]
        want = "reject" if "reject" in verdicts else ("unspecified" if "unspecified" in verdicts else "accept")
        feat = {"kinds": sorted(varied), "methods": [b["method"] for b in group], "params": [[n for n, _ in b["cfg"]] for b in group],
                "types": [[v["t"] for _, v in b["cfg"]] for b in group], "expected": want, "multiband": multiband,
                "with_validation": with_validation, "machine_reused": reuse}
        mL, mR = metas[multiband]
        try:
            out = check_pipeline_section(cfg, mL, mR, machine)
            got = "accept"
        except Exception as exc:  # pylint: disable=broad-except
            out, got = None, "reject"
            feat["exception"] = type(exc).__name__
        rec = {"user_cfg": user, "returned": out, "behaviours": group, "label": label}
        if want != "unspecified" and got != want:
            chk.violation("accept_iff_in_domain", dict(feat, got=got), rec, f"{label}: expected {want}, got {got}: {user['pipeline']}")
            return
        if not same_cfg(cfg, user):
            chk.violation("user_dictionary_not_mutated", feat, dict(rec, after=cfg), f"{label}: the user's dictionary was mutated")
        if got != "accept":
            return
        # preservation: user keys first, same order, same values (special strings turned into floats)
        for k, b in varied.items():
            ret = out["pipeline"].get(k)
            if ret is None:
                chk.violation("user_keys_preserved", feat, rec, f"{label}: step {k} missing from the returned configuration")
                continue
            ukeys = list(user["pipeline"][k].keys())
            if list(ret.keys())[:len(ukeys)] != ukeys or not all(same_value(ret[x], expected_after(user["pipeline"][k][x])) for x in ukeys):
                chk.violation("user_keys_preserved", feat, rec, f"{label}: user keys of {k} not preserved in value and position: {ret}")
            for name, val in b["defaults"]:
                if name not in ret or not same_value(ret[name], dec(val)):
                    chk.violation("documented_default", dict(feat, parameter=name), rec,
                                  f"{label}: {k}.{name} should default to {dec(val)!r}, got {ret.get(name, '<absent>')!r}")
        if list(out["pipeline"].keys()) != list(user["pipeline"].keys()):
            chk.violation("user_keys_preserved", feat, rec, f"{label}: the order of the steps changed")
        # idempotence
        try:
            again = check_pipeline_section(copy.deepcopy(out), mL, mR, PandoraMachine())
            if not same_cfg(again, out):
                chk.violation("idempotent", feat, dict(rec, again=again), f"{label}: checking the returned configuration changed it")
        except Exception as exc:  # pylint: disable=broad-except
            chk.violation("idempotent", dict(feat, exception2=type(exc).__name__), rec, f"{label}: the returned configuration is rejected: {exc!r}")

    # every single behaviour
    order = list(range(len(behs)))
    rng.shuffle(order)
    singles = order                # every enumerated behaviour, in both tiers (a few seconds)
    for i in singles:
        b = behs[i]
        chk.count((b["kind"], b["method"], str(b["cfg"]), b["multiband"]))
        replay([b], f"single#{i}", reuse=(i % 2 == 1))
        if i % 3 == 0 and b["kind"] != "validation":
            replay([b], f"single+validation#{i}", with_validation=True, reuse=(i % 2 == 1))
    for i in singles[:3]:
        chk.sample({"behaviour": behs[i]})
    # pairs of varied steps of different kinds in one pipeline
    npairs = 1000 if tier == "quick" else 8000
    for j in range(npairs):
        a, b = behs[rng.randint(len(behs))], behs[rng.randint(len(behs))]
        if a["kind"] == b["kind"] or (a["multiband"] != b["multiband"] and "matching_cost" in (a["kind"], b["kind"])):
            continue
        chk.count(("pair", a["kind"], a["method"], str(a["cfg"]), b["kind"], b["method"], str(b["cfg"])))
        replay([a, b], f"pair#{j}")
    # histories: the matching-cost classes share a class-level schema dictionary: check A then B must equal check B alone
    mcb = [b for b in behs if b["kind"] == "matching_cost" and b["multiband"] == 0]
    for j in range(60 if tier == "quick" else 600):
        a, b = mcb[rng.randint(len(mcb))], mcb[rng.randint(len(mcb))]
        cfg_a, _, _ = build_pipeline([a])
        cfg_b, _, _ = build_pipeline([b])
        mL, mR = metas[0]

        def outcome(cfg):
            try:
                return ("accept", check_pipeline_section(copy.deepcopy(cfg), mL, mR, PandoraMachine()))
            except Exception as exc:  # pylint: disable=broad-except
                return ("reject", type(exc).__name__)
        ref = outcome(cfg_b)
        outcome(cfg_a)
        after = outcome(cfg_b)
        chk.count(("history", a["method"], str(a["cfg"]), b["method"], str(b["cfg"])))
        if ref[0] != after[0] or (ref[0] == "accept" and not same_cfg(ref[1], after[1])):
            chk.violation("history_free", {"first": a["method"], "second": b["method"]}, {"a": cfg_a, "b": cfg_b, "alone": str(ref), "after": str(after)},
                          "checking B after A differs from checking B alone")
    chk.level = "model_checking"
    chk.traces = chk.evaluations
    chk.rule = ("behaviours enumerated by TLC from the parameter tables (kind x method x parameter x boundary value x mono/multi-band), "
                "replayed one by one and in pairs into the real check_pipeline_section on fresh machines, plus check histories; "
                "distinct = distinct configurations")
    return chk.finish()
