"""C06 - refinement moves a disparity by at most half a sample, never for the worse.

(E) TLC, MC_Refinement: every cost triple over {0..4, NaN}^3 x {min, max} x {vfit, quadratic}: bound, not-worse,
    totality, flat/tied triples, and the agreement of the closed forms with the three-point constructions.
(B3) real executions, decided per pixel by TLC on exact rationals (Refinement.tla):
    (i) direct drive of the real loop_refinement through subpixel_refinement on integer cost volumes (min and max type,
        subpix 1/2/4, NaN holes, flat and tied curves) with the disparity map coming from the real winner-takes-all,
        from the real median filter applied after it, and from a previous real refinement (repeated refinement);
    (ii) legal pipelines on the real machine (sad / census, refinement after filter, refinement twice).
"""
from __future__ import annotations

import numpy as np

from vp import build
from vp import dataplane as dp
from vp.core import Check
from vp.project import enc_frac, enc_int, enc_scaled


def enc_frac_arr(a, scale):
    a = np.asarray(a, dtype=np.float64) * scale
    return [[enc_frac(v) for v in row] for row in a]


def milli(a, s):
    """round(1000 * a * s) as ints, NaN -> NAN sentinel; |values| are small (disparities), -9999 stays below 2^31"""
    a = np.asarray(a, dtype=np.float64) * s * 1000.0
    from vp.project import NAN
    return np.where(np.isnan(a), NAN, np.rint(np.nan_to_num(a))).astype(np.int64).tolist()


def ref_case(cid, cv_ds, before_disp, before_vm, after_ds, method, cost_scale, offset=0.0):
    """offset: a constant subtracted from the costs and from the fitted cost before they are encoded (the V-fit and the parabola are
    translation-covariant: the shift does not change, the fitted cost moves with the costs), so that large costs stay small integers"""
    s = int(cv_ds.attrs["subpixel"])
    disp0 = float(cv_ds.coords["disp"].data[0])
    return {"id": cid, "step": "refinement", "method": method, "type": str(cv_ds.attrs["type_measure"]), "s": s,
            "first": int(round(disp0 * s)), "rows": int(cv_ds.sizes["row"]), "cols": int(cv_ds.sizes["col"]),
            "cv": enc_scaled(np.asarray(cv_ds["cost_volume"].data, dtype=np.float64) - offset, cost_scale),
            "before": {"disp": enc_frac_arr(before_disp, s), "vm": enc_int(before_vm), "d3": milli(before_disp, s)},
            "after": {"disp": enc_frac_arr(after_ds["disparity_map"].data, s), "vm": enc_int(after_ds["validity_mask"].data),
                      "coef": enc_frac_arr(np.asarray(after_ds["interpolated_coeff"].data, dtype=np.float64) - offset, cost_scale),
                      "d3": milli(after_ds["disparity_map"].data, s),
                      "delta3": milli(np.abs(np.asarray(after_ds["disparity_map"].data, dtype=np.float64)
                                             - np.asarray(before_disp, dtype=np.float64)), s)}}


def gen_int_costs(rng, rows, cols, nd, style):
    if style == "flat":
        c = np.tile(rng.randint(0, 3, size=(rows, cols, 1)), (1, 1, nd)).astype(np.float32)
        c += (rng.rand(rows, cols, nd) < 0.3)
    elif style == "ties":
        c = rng.randint(0, 3, size=(rows, cols, nd)).astype(np.float32)
    elif style == "offset":
        # large costs with small differences (a strong radiometric offset, weak texture): exact in float32, NOT a flat curve
        c = (200000 + rng.randint(0, 9, size=(rows, cols, nd))).astype(np.float32)
    else:
        c = rng.randint(0, 9, size=(rows, cols, nd)).astype(np.float32)
    c[rng.rand(rows, cols, nd) < rng.choice([0.0, 0.15, 0.4])] = np.nan
    return c


def run(tier):
    from pandora import disparity, filter as pfilter, refinement
    chk = Check("C06", tier)
    rng = np.random.RandomState(chk.seed + 606)
    chk.assumptions += [
        "integer (exactly representable) costs so that the V-fit / parabola optimum is an exact rational; refined disparities and "
        "coefficients are projected to fractions with denominator <= 256 (guard 1e-5)",
        "exact clauses (optimum, coefficient, stopped-exactly-when) are demanded where the received disparity is a sampled disparity "
        "(the statement's 'winner-takes-all sample'); for off-sample received disparities (after a filter averaged two samples, or a "
        "previous refinement moved it) the statement does not fix the triple: only totality, the frame, the half-sample bound and the "
        "interval are demanded there",
    ]
    res = chk.tlc("MC_Refinement", "MC_Refinement.cfg", label="triples", workers=4)
    for inv in res.invariant_violations:
        chk.violation("spec:" + inv, {"model": "MC_Refinement", "invariant": inv}, {"tlc": res.trace_text()}, "")
    cases, meta = [], {}
    n = 0
    nsyn = 288 if tier == "quick" else 2880
    for k in range(nsyn):
        rows, cols = int(rng.randint(1, 5)), int(rng.randint(2, 8))
        nd = int(rng.randint(2, 7))
        s = int([1, 2, 4][k % 3])
        tm = ["min", "max"][k % 2]
        style = ["flat", "ties", "spread"][(k // 2) % 3] if k % 7 != 6 else "offset"
        method = ["vfit", "quadratic"][(k // 6) % 2]
        chain = ["wta", "wta+median", "wta+ref", "wta+median+ref", "anysample", "anysample+ref", "offsample", "offsample+ref"][(k // 12) % 8]
        costs = gen_int_costs(rng, rows, cols, nd, style)
        dmin = int(rng.randint(-3, 2))
        vm = rng.choice([0, 0, 0, 0, 4, 1, 64, 2, 128, 256, 512], size=(rows, cols))
        costs[(vm & 0b1111000011) != 0] = np.nan      # invalid pixels have no computable cost (C04)
        vm = np.where(np.isnan(costs).all(axis=2) & ((vm & 0b1111000011) == 0), vm | 2, vm)   # ... and conversely
        cv = build.make_cv(costs, dmin=dmin, subpix=s, type_measure=tm, vm=vm)
        feat = {"chain": chain, "method": method, "type": tm, "subpix": s, "style": style}
        chk.count((chain, method, tm, s, style, rows, cols, nd))
        try:
            d = disparity.AbstractDisparity(disparity_method="wta", invalid_disparity=[-9999, float("nan")][k % 2]).to_disp(cv)
            d["validity_mask"].data[:] = vm.astype(np.uint16)
            if "anysample" in chain:
                # any sampled disparity at a valid pixel (what a median filter may leave: a neighbour's sample)
                dm = d["disparity_map"].data
                validpx = (vm & 0b1111000011) == 0
                rnd = (dmin + rng.randint(0, nd, size=(rows, cols)) / float(s)).astype(np.float32)
                dm[validpx] = rnd[validpx]
            if "offsample" in chain:
                # any disparity of the interval at a valid pixel, between two samples too (what a bilateral filter or a
                # previous refinement may leave), including the first and the last half-sample of the interval
                dm = d["disparity_map"].data
                validpx = (vm & 0b1111000011) == 0
                rnd = (dmin + rng.randint(0, 8 * (nd - 1) + 1, size=(rows, cols)) / float(8 * s)).astype(np.float32)
                dm[validpx] = rnd[validpx]
            if "median" in chain:
                if rows < 3 or cols < 3:
                    continue      # (the median filter's own behaviour on tiny maps is C10's business)
                pfilter.AbstractFilter(cfg={"filter_method": "median", "filter_size": 3}, image_shape=(rows, cols), step=1).filter_disparity(d)
            stages = [method] if chain in ("wta", "wta+median", "anysample", "offsample") else [["vfit", "quadratic"][k % 2], method]
            for si, mth in enumerate(stages):
                before_disp = d["disparity_map"].data.copy()
                before_vm = d["validity_mask"].data.copy()
                r = refinement.AbstractRefinement(refinement_method=mth)
                r.subpixel_refinement(cv, d)
                n += 1
                cid = f"r{n}"
                cases.append(ref_case(cid, cv, before_disp, before_vm, d, mth, 1, offset=200000.0 if style == "offset" else 0.0))
                meta[cid] = dict(feat, stage=si, method=mth, repeated=si > 0, after_filter="median" in chain)
                if len(chk.samples) < 3:
                    chk.sample({"features": meta[cid], "cv_pixel": cases[-1]["cv"][0][0], "before": cases[-1]["before"]["disp"][0][0],
                                "after": cases[-1]["after"]["disp"][0][0]})
        except Exception as exc:  # pylint: disable=broad-except
            flat = bool(style == "flat")
            chk.violation("total", dict(feat, exception=type(exc).__name__, flat_curves=flat), {"exception": repr(exc)[:300]},
                          f"refinement raised {type(exc).__name__} on {feat}")
    # ---- (ii) legal pipelines on the real machine ------------------------------------------------------------------
    npipe = 30 if tier == "quick" else 300
    for k in range(npipe):
        measure = ["sad", "census"][k % 2]
        win = 3 if measure == "census" else [1, 3][k % 2]
        s = [1, 2, 4][k % 3]
        shape = ["ref", "filter+ref", "ref+ref", "ref+filter+ref", "val+ref"][k % 5]
        m1, m2 = ["vfit", "quadratic"][k % 2], ["quadratic", "vfit"][(k // 2) % 2]
        steps = [("matching_cost", {"matching_cost_method": measure, "window_size": win, "subpix": s}),
                 ("disparity", {"disparity_method": "wta", "invalid_disparity": [-9999, "NaN"][k % 2]})]
        if shape == "ref":
            steps += [("refinement", {"refinement_method": m1})]
        elif shape == "filter+ref":
            steps += [("filter", {"filter_method": "median", "filter_size": 3}), ("refinement", {"refinement_method": m1})]
        elif shape == "ref+ref":
            steps += [("refinement", {"refinement_method": m1}), ("refinement.1", {"refinement_method": m2})]
        elif shape == "ref+filter+ref":
            steps += [("refinement", {"refinement_method": m1}), ("filter", {"filter_method": "bilateral"}), ("refinement.1", {"refinement_method": m2})]
        else:
            steps += [("validation", {"validation_method": "cross_checking_accurate"}), ("refinement", {"refinement_method": m1})]
        a = int(rng.randint(-3, 1))
        # constant regions / periodic patterns make flat and tied cost curves
        prob = dp.gen_problem(rng, rows=win + 3, cols=win + 8, win=win, s=s, measure=measure, disp=(a, a + int(rng.randint(1, 5))),
                              vmax=[1, 3][k % 2], mask_mode=["none", "both"][k % 2])
        left, right = dp.make_datasets(prob)
        cfg = {"pipeline": {nm: dict(c) for nm, c in steps}}
        feat = {"chain": shape, "measure": measure, "subpix": s, "pipeline": [nm for nm, _ in steps]}
        chk.count(("pipe", shape, measure, win, s, m1, m2))
        try:
            r = dp.StepRunner(left, right, cfg)
            for nm, c in steps:
                kind = nm.split(".")[0]
                sides = [("L", r.m.left_cv, r.m.left_disparity)]
                if kind == "refinement":
                    if shape == "val+ref":
                        sides.append(("R", r.m.right_cv, r.m.right_disparity))
                    snaps = [(sd, cvd, dd["disparity_map"].data.copy(), dd["validity_mask"].data.copy()) for sd, cvd, dd in sides]
                r.step()
                if kind == "refinement":
                    for sd, cvd, bd, bvm in snaps:
                        dd = r.m.left_disparity if sd == "L" else r.m.right_disparity
                        n += 1
                        cid = f"q{n}"
                        cases.append(ref_case(cid, cvd, bd, bvm, dd, c["refinement_method"], dp.cost_scale(measure, s)))
                        meta[cid] = dict(feat, at=nm, method=c["refinement_method"], side=sd, repeated="." in nm,
                                         after_filter=shape in ("filter+ref", "ref+filter+ref") and (nm != "refinement" or shape == "filter+ref"))
            r.close()
        except Exception as exc:  # pylint: disable=broad-except
            chk.violation("total", dict(chain=shape, measure=measure, exception=type(exc).__name__), {"exception": repr(exc)[:300], "pipeline": feat},
                          f"pipeline {feat['pipeline']} raised {type(exc).__name__}")
    verdicts = chk.tlc_cases("PipelineTrace", "PipelineTrace.cfg", cases, label="c06", chunk=40, parallel=12)
    for cid, v in verdicts.items():
        for clause in v["failed"]:
            m = meta[cid]
            feat = {"clause": clause, "method": m["method"], "repeated": bool(m.get("repeated")), "after_filter": bool(m.get("after_filter")),
                    "type": m.get("type", "min")}
            chk.violation(clause, feat, {"meta": m, "detail": v["detail"], "case": next(c for c in cases if c["id"] == cid)},
                          f"{cid}: {clause} {v['detail']} {m}")
    chk.rule = ("integer cost volumes (flat / tied / spread curves, NaN holes, min and max type, subpix 1/2/4) refined after the real "
                "winner-takes-all, after a real median filter, and after a previous refinement; plus legal pipelines on the real machine "
                "(sad/census; refinement after filter, twice, after validation on both sides); distinct = distinct parameter tuples")
    return chk.finish()
