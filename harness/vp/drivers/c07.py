"""C07 - cross-checking flags exactly the left-right inconsistent pixels, nothing else.

(E) TLC, MC_Validation: exhaustive over every pair of 1x3 maps with disparities in {-2,-1.5,...,2} u {NaN} and
    thresholds {0, 1/2, 1}: the specification's outcome sets are never empty, never contain both bits, and the rule
    is symmetric (right against left = left against right of the mirrored pair).
(B3) direct drive of the real CrossCheckingAccurate.disparity_checking on arbitrary pairs of maps (integer, half,
    quarter and refined-looking fractional disparities, invalid / NaN entries, any validity mask, thresholds, windows,
    intervals, 1-3 rows), left against right AND right against left; every pixel decided by TLC on exact rationals.
"""
from __future__ import annotations

import numpy as np

from vp import build
from vp.core import Check
from vp.project import NAN, conf_same, conf_snapshot, enc_frac, enc_int, same_bits


def fr_arr(a):
    return [[enc_frac(v) for v in row] for row in np.asarray(a, dtype=np.float64)]


def gen_map(rng, rows, cols, lo, hi, style, inv):
    if style == "int":
        d = rng.randint(lo, hi + 1, size=(rows, cols)).astype(np.float32)
    elif style == "half":
        d = (rng.randint(2 * lo, 2 * hi + 1, size=(rows, cols)) / 2.0).astype(np.float32)
    elif style == "quarter":
        d = (rng.randint(4 * lo, 4 * hi + 1, size=(rows, cols)) / 4.0).astype(np.float32)
    else:  # thirds / sixths: what a refinement produces
        d = (rng.randint(6 * lo, 6 * hi + 1, size=(rows, cols)) / 6.0).astype(np.float32)
    vm = rng.choice([0, 0, 0, 0, 0, 4, 8, 12, 1, 2, 64, 128, 66], size=(rows, cols))
    d[(vm & 0b1111000011) != 0] = inv
    return d, vm


def run(tier):
    from pandora import validation
    chk = Check("C07", tier)
    rng = np.random.RandomState(chk.seed + 707)
    chk.assumptions += [
        "round() on exact halves: either neighbour accepted (the statement does not fix the tie rule); the position "
        "dependence of the code's rint(index + d) is judged by C13",
        "correspondent outside the right image: flagged occlusion, or mismatch when some d matches (both readings accepted)",
        "right disparity NaN at the correspondent: the band may hold any non-NaN marker (the code writes inf)",
        "disparities are fractions with denominator <= 6 and thresholds multiples of 1/4: exact in float32 for |d| <= 16",
    ]
    res = chk.tlc("MC_Validation", "MC_Validation_thorough.cfg" if tier == "thorough" else "MC_Validation.cfg", label="xcheck_theorems", workers=16, timeout=1800, heap="6g")
    for inv in res.invariant_violations:
        chk.violation("spec:" + inv, {"model": "MC_Validation", "invariant": inv}, {"tlc": res.trace_text()}, "")
    cases, meta = [], {}
    n = 0
    ncases = 150 if tier == "quick" else 2500
    for k in range(ncases):
        rows = int(rng.choice([1, 1, 2, 3]))
        cols = int(rng.randint(1, 9))
        win = int(rng.choice([1, 1, 3])) if rows >= 3 and cols >= 3 else 1
        lo = int(rng.randint(-3, 2))
        hi = lo + int(rng.randint(0, 4))
        style = ["int", "half", "quarter", "sixth"][k % 4]
        inv = [-9999.0, float("nan")][(k // 4) % 2]
        thr = float([0.0, 0.25, 0.5, 1.0, 2.0][k % 5])
        dL, vmL = gen_map(rng, rows, cols, lo, hi, style, inv)
        # right map: mostly the consistent counterpart of the left one, perturbed
        dR, vmR = gen_map(rng, rows, cols, -hi, -lo, style, inv)
        if rng.rand() < 0.6:
            for r in range(rows):
                for c in range(cols):
                    if (vmL[r, c] & 0b1111000011) == 0 and not np.isnan(dL[r, c]):
                        q = int(np.rint(c + dL[r, c]))
                        if 0 <= q < cols and (vmR[r, q] & 0b1111000011) == 0 and rng.rand() < 0.7:
                            dR[r, q] = -dL[r, c] + rng.choice([0, 0, 0.25, -0.5, 1.0])
        with_conf = k % 3 == 0
        conf = (["confidence_from_ambiguity"], rng.rand(rows, cols, 1)) if with_conf else None
        for direction in ("LR", "RL"):
            a, va, b, vb = (dL, vmL, dR, vmR) if direction == "LR" else (dR, vmR, dL, vmL)
            glo, ghi = (lo, hi) if direction == "LR" else (-hi, -lo)
            left = build.make_disp(a, vm=va, dmin=glo, dmax=ghi, window_size=win, conf=conf)
            right = build.make_disp(b, vm=vb, dmin=-ghi, dmax=-glo, window_size=win)
            a0, b0 = left["disparity_map"].data.copy(), right["disparity_map"].data.copy()
            csnap = conf_snapshot(left)
            n += 1
            cid = f"x{n}"
            feat = {"style": style, "thr": thr, "win": win, "direction": direction, "inv_nan": bool(np.isnan(inv)), "rows": rows}
            chk.count((rows, cols, win, lo, hi, style, str(inv), thr, direction, k))
            try:
                v = validation.AbstractValidation(validation_method="cross_checking_accurate", cross_checking_threshold=thr)
                out = v.disparity_checking(left, right)
            except Exception as exc:  # pylint: disable=broad-except
                chk.violation("total", dict(feat, exception=type(exc).__name__), {"exception": repr(exc)[:300]}, f"disparity_checking raised on {feat}")
                continue
            names = list(map(str, out.coords["indicator"].data)) if "confidence_measure" in out.data_vars else []
            band_ok = len(names) > 0 and names[-1] == "confidence_from_left_right_consistency" and len(names) == (2 if with_conf else 1)
            band = out["confidence_measure"].data[:, :, -1] if names else np.full((rows, cols), np.nan)
            if with_conf and names:
                old_ok = names[:-1] == csnap[0] and same_bits(out["confidence_measure"].data[:, :, :-1], csnap[1])
            else:
                old_ok = True
            band_enc = [[([1000000009, 1] if np.isinf(v2) else enc_frac(v2)) for v2 in row] for row in np.asarray(band, dtype=np.float64)]
            case = {"id": cid, "step": "cross_check", "rows": rows, "cols": cols, "win": win, "gmin": glo, "gmax": ghi,
                    "thr": enc_frac(thr), "dL": fr_arr(a0), "dR": fr_arr(b0), "vm": enc_int(va),
                    "out": {"vm": enc_int(out["validity_mask"].data), "band": band_enc,
                            "frame_dL": same_bits(a0, out["disparity_map"].data), "frame_dR": same_bits(b0, right["disparity_map"].data),
                            "frame_conf": bool(old_ok), "band_name_ok": bool(band_ok)}}
            cases.append(case)
            meta[cid] = feat
            if len(chk.samples) < 3:
                chk.sample({"features": feat, "dL": case["dL"][0], "dR": case["dR"][0], "vm_before": case["vm"][0], "vm_after": case["out"]["vm"][0]})
    verdicts = chk.tlc_cases("PipelineTrace", "PipelineTrace.cfg", cases, label="c07", chunk=100, parallel=12)
    for cid, v in verdicts.items():
        c = next(x for x in cases if x["id"] == cid) if v["failed"] else None
        for clause in v["failed"]:
            feat = dict(clause=clause, direction=meta[cid]["direction"])
            if clause == "cross_check_exact" and v["detail"]:
                r, cc = v["detail"][0] - 1, v["detail"][1] - 1
                dl = c["dL"][r][cc]
                q = cc + dl[0] / dl[1]
                feat["correspondent_outside_image"] = bool(np.rint(q) < 0 or np.rint(q) >= c["cols"])
            chk.violation(clause, feat, {"meta": meta[cid], "detail": v["detail"], "case": c}, f"{cid}: {clause} {v['detail']} {meta[cid]}")
    chk.rule = ("random pairs of left/right disparity maps (1-3 rows x 1-8 cols; integer / half / quarter / sixth disparities; invalid and "
                "NaN entries; any validity mask; thresholds 0..2; windows 1/3; intervals within -3..4), each checked left-against-right and "
                "right-against-left; distinct = distinct parameter tuples")
    return chk.finish()
