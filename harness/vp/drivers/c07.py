"""C07 - cross-checking flags exactly the left-right inconsistent pixels, nothing else.

(E) TLC, MC_Validation: exhaustive over every pair of 1x3 maps with disparities in {-2,-1.5,...,2} u {NaN} and
    thresholds {0, 1/2, 1}: the specification's outcome sets are never empty, never contain both bits, and the rule
    is symmetric (right against left = left against right of the mirrored pair).
(B3) direct drive of the real CrossCheckingAccurate.disparity_checking on arbitrary pairs of maps (integer, half,
    quarter and eighth disparities, invalid / NaN entries, any validity mask, thresholds, windows,
    intervals, 1-3 rows), left against right AND right against left; every pixel decided by TLC on exact rationals.
"""
from __future__ import annotations

import numpy as np

from vp import build
from vp import dataplane as dp
from vp.core import Check
from vp.project import NAN, conf_same, conf_snapshot, enc_frac, enc_int, same_bits


def fr_arr(a):
    return [[enc_frac(v) for v in row] for row in np.asarray(a, dtype=np.float64)]


def gen_map(rng, rows, cols, lo, hi, style, inv):
    if style == "int":
        d = rng.randint(lo, hi + 1, size=(rows, cols)).astype(np.float32)
    elif style == "half":
        d = (rng.randint(2 * lo, 2 * hi + 1, size=(rows, cols)) / 2.0).astype(np.float32)
    elif style == "quarter":
        d = (rng.randint(4 * lo, 4 * hi + 1, size=(rows, cols)) / 4.0).astype(np.float32)
    else:  # eighths: fine fractions as a refinement produces, still exact in float32 (thirds or sixths are not: the sum
        # of two of them can differ from the exact rational by one ulp, which decides a comparison with threshold 0)
        d = (rng.randint(8 * lo, 8 * hi + 1, size=(rows, cols)) / 8.0).astype(np.float32)
    vm = rng.choice([0, 0, 0, 0, 0, 4, 8, 12, 1, 2, 64, 128, 66], size=(rows, cols))
    d[(vm & 0b1111000011) != 0] = inv
    return d, vm


def xc_case(cid, a0, b0, va, win, glo, ghi, thr, out, other_after, csnap, with_conf):
    """one cross_check step case: maps before (a0 checked against b0, flags va), checked dataset `out` after"""
    rows, cols = np.asarray(a0).shape
    names = list(map(str, out.coords["indicator"].data)) if "confidence_measure" in out.data_vars else []
    nold = len(csnap[0]) if csnap is not None else 0
    band_ok = len(names) > 0 and names[-1] == "confidence_from_left_right_consistency" and len(names) == nold + 1
    band = out["confidence_measure"].data[:, :, -1] if names else np.full((rows, cols), np.nan)
    if with_conf and names:
        old_ok = names[:-1] == csnap[0] and same_bits(out["confidence_measure"].data[:, :, :-1], csnap[1])
    else:
        old_ok = True
    band_enc = [[([1000000009, 1] if np.isinf(v2) else enc_frac(v2)) for v2 in row] for row in np.asarray(band, dtype=np.float64)]
    return {"id": cid, "step": "cross_check", "rows": rows, "cols": cols, "win": win, "gmin": glo, "gmax": ghi,
            "thr": enc_frac(thr), "dL": fr_arr(a0), "dR": fr_arr(b0), "vm": enc_int(va),
            "out": {"vm": enc_int(out["validity_mask"].data), "band": band_enc,
                    "frame_dL": same_bits(a0, out["disparity_map"].data), "frame_dR": same_bits(b0, other_after),
                    "frame_conf": bool(old_ok), "band_name_ok": bool(band_ok)}}


def machine_cases(chk, tier, rng, cases, meta):
    """The validation step of the REAL machine: the left map is checked against the right one and the right map against
    the left one AS BOTH WERE BEFORE THE STEP (the optional filling of occlusions / mismatches comes after both checks).
    The maps handed to the filling are captured, so that the check is also observable when the step interpolates."""
    from pandora.validation import interpolated_disparity as interp_mod
    n = 25 if tier == "quick" else 300
    for k in range(n):
        measure = ["sad", "census"][k % 2]
        win = 3 if measure == "census" else [1, 3][k % 2]
        s = [1, 2, 4][k % 3]
        a = int(rng.randint(-3, 1))
        prob = dp.gen_problem(rng, rows=win + 2 + k % 3, cols=win + 6 + k % 5, win=win, s=s, measure=measure,
                              disp=(a, a + int(rng.randint(1, 4))), mask_mode=["none", "both", "left", "right"][k % 4])
        thr = float([0.0, 1.0, 0.5, 2.0][k % 4])
        interp = [None, "mc-cnn", "sgm"][k % 3]
        vcfg = {"validation_method": "cross_checking_accurate", "cross_checking_threshold": thr}
        if interp:
            vcfg["interpolated_disparity"] = interp
        steps = [("matching_cost", dp.mc_cfg(prob)), ("disparity", {"disparity_method": "wta", "invalid_disparity": [-9999, "NaN"][k % 2]})]
        if k % 5 == 0:
            steps.append(("filter", {"filter_method": "median", "filter_size": 3}))
        steps.append(("validation", vcfg))
        feat = {"style": "machine", "thr": thr, "win": win, "inv_nan": bool(k % 2), "rows": prob["rows"], "interp": interp, "subpix": s}
        chk.count(("machine", measure, win, s, thr, interp, k))
        captured = {}
        patched = []
        try:
            left, right = dp.make_datasets(prob)
            r = dp.StepRunner(left, right, {"pipeline": {nm: dict(c) for nm, c in steps}})
            for _ in range(len(steps) - 1):
                r.step()
            m = r.m
            Lb, Rb = m.left_disparity.copy(deep=True), m.right_disparity.copy(deep=True)

            def wrap(orig):
                def w(obj, ds, *a_, **kw):
                    side = "L" if ds is m.left_disparity else ("R" if ds is m.right_disparity else "?")
                    captured.setdefault(side, ds.copy(deep=True))
                    captured.setdefault("order", []).append(side)
                    return orig(obj, ds, *a_, **kw)
                return w
            for cls in set(interp_mod.AbstractInterpolation.interpolation_methods_avail.values()):
                if "interpolated_disparity" in cls.__dict__:
                    patched.append((cls, cls.__dict__["interpolated_disparity"]))
                    setattr(cls, "interpolated_disparity", wrap(cls.__dict__["interpolated_disparity"]))
            try:
                r.step()
            finally:
                for cls, orig in patched:
                    setattr(cls, "interpolated_disparity", orig)
            preL = captured.get("L", m.left_disparity) if interp else m.left_disparity
            preR = captured.get("R", m.right_disparity) if interp else m.right_disparity
            if interp and (captured.get("order") != ["L", "R"]):
                chk.violation("fill_after_both_checks", dict(direction="-", interp=interp), {"features": feat, "order": captured.get("order")},
                              f"the filling was not applied once to the left then once to the right map: {captured.get('order')}")
                r.close()
                continue
            r.close()
        except Exception as exc:  # pylint: disable=broad-except
            chk.violation("total", dict(feat, exception=type(exc).__name__), {"exception": repr(exc)[:300]}, f"validation step raised on {feat}")
            continue
        for direction, ref_b, sec_b, pre, other_pre in (("LR", Lb, Rb, preL, preR), ("RL", Rb, Lb, preR, preL)):
            cid = f"v{k}{direction}"
            iv = ref_b["disparity_interval"].data
            csnap = conf_snapshot(ref_b)
            case = xc_case(cid, ref_b["disparity_map"].data, sec_b["disparity_map"].data, ref_b["validity_mask"].data,
                           int(ref_b.attrs["window_size"]), int(iv[0]), int(iv[1]), thr, pre, other_pre["disparity_map"].data,
                           csnap, csnap is not None)
            cases.append(case)
            meta[cid] = dict(feat, direction=direction)


def run(tier):
    from pandora import validation
    chk = Check("C07", tier)
    rng = np.random.RandomState(chk.seed + 707)
    chk.assumptions += [
        "round() on exact halves: either neighbour accepted (the statement does not fix the tie rule); the position "
        "dependence of the code's rint(index + d) is judged by C13",
        "correspondent outside the right image: flagged occlusion, or mismatch when some d matches (both readings accepted)",
        "right disparity NaN at the correspondent: the band may hold any non-NaN marker (the code writes inf)",
        "disparities are multiples of 1/8 and thresholds multiples of 1/4: every sum and comparison is exact in float32",
    ]
    res = chk.tlc("MC_Validation", "MC_Validation_thorough.cfg" if tier == "thorough" else "MC_Validation.cfg", label="xcheck_theorems", workers=16, timeout=1800, heap="6g")
    for inv in res.invariant_violations:
        chk.violation("spec:" + inv, {"model": "MC_Validation", "invariant": inv}, {"tlc": res.trace_text()}, "")
    cases, meta = [], {}
    n = 0
    ncases = 150 if tier == "quick" else 2500
    for k in range(ncases):
        rows = int(rng.choice([1, 1, 2, 3]))
        cols = int(rng.randint(1, 9))
        win = int(rng.choice([1, 1, 3])) if rows >= 3 and cols >= 3 else 1
        lo = int(rng.randint(-3, 2))
        hi = lo + int(rng.randint(0, 4))
        style = ["int", "half", "quarter", "eighth"][k % 4]
        inv = [-9999.0, float("nan")][(k // 4) % 2]
        thr = float([0.0, 0.25, 0.5, 1.0, 2.0][k % 5])
        dL, vmL = gen_map(rng, rows, cols, lo, hi, style, inv)
        # right map: mostly the consistent counterpart of the left one, perturbed
        dR, vmR = gen_map(rng, rows, cols, -hi, -lo, style, inv)
        if rng.rand() < 0.6:
            for r in range(rows):
                for c in range(cols):
                    if (vmL[r, c] & 0b1111000011) == 0 and not np.isnan(dL[r, c]):
                        q = int(np.rint(c + dL[r, c]))
                        if 0 <= q < cols and (vmR[r, q] & 0b1111000011) == 0 and rng.rand() < 0.7:
                            dR[r, q] = -dL[r, c] + rng.choice([0, 0, 0.25, -0.5, 1.0])
        with_conf = k % 3 == 0
        conf = (["confidence_from_ambiguity"], rng.rand(rows, cols, 1)) if with_conf else None
        for direction in ("LR", "RL"):
            a, va, b, vb = (dL, vmL, dR, vmR) if direction == "LR" else (dR, vmR, dL, vmL)
            glo, ghi = (lo, hi) if direction == "LR" else (-hi, -lo)
            left = build.make_disp(a, vm=va, dmin=glo, dmax=ghi, window_size=win, conf=conf)
            right = build.make_disp(b, vm=vb, dmin=-ghi, dmax=-glo, window_size=win)
            a0, b0 = left["disparity_map"].data.copy(), right["disparity_map"].data.copy()
            csnap = conf_snapshot(left)
            n += 1
            cid = f"x{n}"
            feat = {"style": style, "thr": thr, "win": win, "direction": direction, "inv_nan": bool(np.isnan(inv)), "rows": rows}
            chk.count((rows, cols, win, lo, hi, style, str(inv), thr, direction, k))
            try:
                v = validation.AbstractValidation(validation_method="cross_checking_accurate", cross_checking_threshold=thr)
                out = v.disparity_checking(left, right)
            except Exception as exc:  # pylint: disable=broad-except
                chk.violation("total", dict(feat, exception=type(exc).__name__), {"exception": repr(exc)[:300]}, f"disparity_checking raised on {feat}")
                continue
            case = xc_case(cid, a0, b0, va, win, glo, ghi, thr, out, right["disparity_map"].data, csnap, with_conf)
            cases.append(case)
            meta[cid] = feat
            if len(chk.samples) < 3:
                chk.sample({"features": feat, "dL": case["dL"][0], "dR": case["dR"][0], "vm_before": case["vm"][0], "vm_after": case["out"]["vm"][0]})
    machine_cases(chk, tier, rng, cases, meta)
    verdicts = chk.tlc_cases("PipelineTrace", "PipelineTrace.cfg", cases, label="c07", chunk=100, parallel=12)
    for cid, v in verdicts.items():
        c = next(x for x in cases if x["id"] == cid) if v["failed"] else None
        for clause in v["failed"]:
            feat = dict(clause=clause, direction=meta[cid]["direction"])
            if clause == "cross_check_exact" and v["detail"]:
                r, cc = v["detail"][0] - 1, v["detail"][1] - 1
                dl = c["dL"][r][cc]
                q = cc + dl[0] / dl[1]
                feat["correspondent_outside_image"] = bool(np.rint(q) < 0 or np.rint(q) >= c["cols"])
            chk.violation(clause, feat, {"meta": meta[cid], "detail": v["detail"], "case": c}, f"{cid}: {clause} {v['detail']} {meta[cid]}")
    chk.rule = ("random pairs of left/right disparity maps (1-3 rows x 1-8 cols; integer / half / quarter / eighth disparities; invalid and "
                "NaN entries; any validity mask; thresholds 0..2; windows 1/3; intervals within -3..4), each checked left-against-right and "
                "right-against-left; distinct = distinct parameter tuples")
    return chk.finish()
