"""C08 - right-image products equal the left products of the mirrored problem.

(E) TLC: T_Mirror of MC_MatchingCost (the cost of the right problem is the cost of the mirrored left problem) and, on the control
    plane, RunsAsWritten of MC_Machine (every step runs on the right side iff the pipeline has a validation step).
(B3, relational) for random problems and legal pipelines WITH a validation step: run(L, R, [a, b]) and run(R, L, [-b, -a]) on fresh
    real machines; TLC decides right_1 = left_2 and left_1 = right_2 bit for bit on the disparity map, the validity mask and every
    confidence band.  Without a validation step the right dataset must be empty; adding a cross-checking step without filling
    must leave the left disparity map unchanged.
"""
from __future__ import annotations

import numpy as np

from vp import build
from vp import dataplane as dp
from vp.core import Check
from vp.project import enc_joint


def mirror_problem(prob):
    a, b = prob["disp"][1], prob["disp"][2]
    q = dict(prob, L=prob["R"], R=prob["L"], mL=prob["mR"], mR=prob["mL"], disp=("scalar", -b, -a))
    if prob.get("rbands") is not None:
        # band order of each image travels with the image
        q["bands"], q["rbands"] = prob["rbands"], prob["bands"]
        q["L"] = np.stack([prob["R"][prob["bands"].index(n)] for n in prob["rbands"]])
        q["R"] = np.stack([prob["L"][prob["bands"].index(n)] for n in prob["rbands"]])
    return q


def gen_pipe(rng, prob, with_val=True, multiscale=False):
    steps = [("matching_cost", dp.mc_cfg(prob))]
    if rng.rand() < 0.35 and prob["bands"] is None:
        steps.append(("aggregation", {"aggregation_method": "cbca", "cbca_distance": int(rng.randint(1, 4)), "cbca_intensity": float([5.0, 30.0][rng.randint(2)])}))
    for j in range(rng.randint(0, 3)):
        steps.append((f"cost_volume_confidence.{j}" if j else "cost_volume_confidence",
                      {"confidence_method": ["ambiguity", "std_intensity", "risk", "interval_bounds"][rng.randint(4)]}))
    steps.append(("disparity", {"disparity_method": "wta", "invalid_disparity": [-9999, "NaN"][rng.randint(2)]}))
    if rng.rand() < 0.5:
        steps.append(("refinement", {"refinement_method": ["vfit", "quadratic"][rng.randint(2)]}))
    if rng.rand() < 0.5:
        steps.append(("filter", {"filter_method": ["median", "bilateral"][rng.randint(2)]}))
    if with_val:
        v = {"validation_method": "cross_checking_accurate", "cross_checking_threshold": float([0.0, 1.0, 2.0][rng.randint(3)])}
        if rng.rand() < 0.5:
            v["interpolated_disparity"] = ["mc-cnn", "sgm"][rng.randint(2)]
        steps.append(("validation", v))
        if rng.rand() < 0.4:
            steps.append(("filter.1", {"filter_method": "median", "filter_size": 3}))
    if multiscale:
        # the coarse-to-fine loop: both sides refine their own interval (the right one from the right user interval)
        steps.insert(len(steps) - (1 if rng.rand() < 0.5 else 0), ("multiscale", {"multiscale_method": "fixed_zoom_pyramid", "num_scales": 2, "scale_factor": 2}))
    return steps


def is_empty_dataset(ds):
    """the right product of a run without validation step: an EMPTY dataset (not None, not a dataset with leftovers)"""
    return ds is not None and hasattr(ds, "data_vars") and len(ds.data_vars) == 0


def describe(ds):
    return list(ds.data_vars) if hasattr(ds, "data_vars") else repr(type(ds))


def rel_equal(cid, A, B, rows, cols):
    names = sorted(set(A) | set(B))
    missing = [x for x in names if x not in A or x not in B]
    names = [x for x in names if x in A and x in B]
    enc = enc_joint([A[x] for x in names] + [B[x] for x in names])
    return {"id": cid, "kind": "equal", "rows": rows, "cols": cols, "names": names, "A": enc[:len(names)], "B": enc[len(names):]}, missing


def run(tier):
    chk = Check("C08", tier)
    rng = np.random.RandomState(chk.seed + 808)
    chk.assumptions += ["scalar disparity intervals (the right interval of the machine is the negated, swapped left one)",
                        "bit-for-bit equality through a joint rank encoding of the two executions' arrays"]
    res = chk.tlc("MC_MatchingCost", "MC_MatchingCost.cfg", label="mirror_theorem", workers=16, timeout=1800, heap="8g")
    for inv in res.invariant_violations:
        chk.violation("spec:" + inv, {"model": "MC_MatchingCost", "invariant": inv}, {"tlc": res.trace_text()}, "")
    cases, meta = [], {}
    npair = 40 if tier == "quick" else 500
    for k in range(npair):
        measure = ["sad", "census", "zncc", "ssd"][k % 4]
        win = 3 if measure in ("census", "zncc") else [1, 3, 5][k % 3]
        s = [1, 2, 4][k % 3]
        a = int(rng.randint(-3, 2))
        ms = (k % 4 == 3)
        if ms:
            s = 1
        prob = dp.gen_problem(rng, rows=win + (9 if ms else 3) + k % 3, cols=win + (15 if ms else 7) + k % 4, win=win, s=s, measure=measure,
                              disp=((a - 2, a + 1 + int(rng.randint(0, 4))) if ms else (a, a + int(rng.randint(0, 4)))),
                              vmax=3 if measure != "zncc" else 2, mask_mode=["none", "left", "right", "both"][k % 4],
                              nbands=1 if k % 5 else 2,
                              conv=None if k % 3 else (dp.CONVENTIONS[(k // 3) % 5], dp.CONVENTIONS[(k // 3 + 1 + k % 2) % 5]))
        steps = gen_pipe(rng, prob, multiscale=ms)
        cfg = {"pipeline": {nm: dict(c) for nm, c in steps}}
        feat = {"measure": measure, "win": win, "subpix": s, "pipeline": [nm for nm, _ in steps],
                "interp": steps and any("interpolated_disparity" in c for _, c in steps), "multiband": prob["bands"] is not None,
                "multiscale": ms, "interval": list(dp.global_interval(prob))}
        chk.count(("mirror", measure, win, s, tuple(feat["pipeline"]), k))
        try:
            l1, r1, _ = dp.run_pipeline(*dp.make_datasets(prob), {"pipeline": {nm: dict(c) for nm, c in steps}})
            l2, r2, _ = dp.run_pipeline(*dp.make_datasets(mirror_problem(prob)), {"pipeline": {nm: dict(c) for nm, c in steps}})
        except Exception as exc:  # pylint: disable=broad-except
            chk.violation("total", dict(measure=measure, exception=type(exc).__name__), {"features": feat, "exception": repr(exc)[:300]}, f"run raised: {feat}")
            continue
        for tag, A, B in (("right1_left2", dp.products(r1), dp.products(l2)), ("left1_right2", dp.products(l1), dp.products(r2))):
            cid = f"m{k}{tag}"
            case, missing = rel_equal(cid, A, B, prob["rows"], prob["cols"])
            if missing or not case["names"]:
                chk.violation("same_products", {"relation": tag}, {"features": feat, "missing": missing, "A": sorted(A), "B": sorted(B)},
                              f"the two runs do not hold the same products: {missing}")
                continue
            cases.append(case)
            meta[cid] = dict(feat, relation=tag)
        if len(chk.samples) < 2:
            chk.sample({"features": feat, "right_disparity_run1": np.asarray(r1["disparity_map"].data).tolist()[:2],
                        "left_disparity_mirrored_run": np.asarray(l2["disparity_map"].data).tolist()[:2]})
        # without the validation step: empty right dataset, and the same left disparity map when validation does no filling
        vi = [i for i, (nm, _) in enumerate(steps) if nm.startswith("validation")][0]
        steps_nv = steps[:vi]                    # the same pipeline stopped just before the validation step ...
        try:
            l3, r3, _ = dp.run_pipeline(*dp.make_datasets(prob), {"pipeline": {nm: dict(c) for nm, c in steps_nv}})
            if vi != len(steps) - 1:             # ... compared with the pipeline stopped just after it
                l1, _, _ = dp.run_pipeline(*dp.make_datasets(prob), {"pipeline": {nm: dict(c) for nm, c in steps[:vi + 1]}})
        except Exception as exc:  # pylint: disable=broad-except
            chk.violation("total", dict(measure=measure, exception=type(exc).__name__), {"features": feat, "exception": repr(exc)[:300]}, "")
            continue
        # the same holds on a machine object that has just run the pipeline WITH its validation step
        try:
            import pandora
            _, _, m_used = dp.run_pipeline(*dp.make_datasets(prob), {"pipeline": {nm: dict(c) for nm, c in steps}})
            l4, r4 = pandora.run(m_used, *dp.make_datasets(prob), {"pipeline": {nm: dict(c) for nm, c in steps_nv}})
            if not is_empty_dataset(r4):
                chk.violation("right_empty_without_validation", {"relation": "no_validation_after_validation_run"},
                              {"features": feat, "vars": describe(r4)},
                              "right dataset not empty without validation step on a machine that ran a validation pipeline before")
        except Exception as exc:  # pylint: disable=broad-except
            chk.violation("total", dict(measure=measure, exception=type(exc).__name__), {"features": feat, "exception": repr(exc)[:300]}, "")
        if not is_empty_dataset(r3):
            chk.violation("right_empty_without_validation", {"relation": "no_validation"}, {"features": feat, "vars": describe(r3)},
                          "right dataset not empty without validation step")
        if not feat["interp"]:
            cid = f"n{k}"
            case, _ = rel_equal(cid, {"disparity_map": dp.products(l1)["disparity_map"]}, {"disparity_map": dp.products(l3)["disparity_map"]},
                                prob["rows"], prob["cols"])
            cases.append(case)
            meta[cid] = dict(feat, relation="cross_check_keeps_left_map")
    # ---- the command-line path: pandora.main derives the right interval itself when the user gives none -------------------------------
    import json as _json
    import shutil as _shutil
    from vp.core import WORK
    from vp.drivers import c19 as _c19
    tmp = WORK / f"c08files-{chk.seed}-{tier}"
    if tmp.exists():
        _shutil.rmtree(tmp)
    tmp.mkdir(parents=True)
    for j in range(3 if tier == "quick" else 20):
        a = int(rng.randint(-5, 1))
        b = a + int(rng.randint(1, 4)) + (1 if a + 1 == -a else 0)        # never symmetric around 0
        if a == -b:
            b += 1
        rows, cols = int(rng.randint(8, 12)), int(rng.randint(12, 18))
        L = rng.randint(0, 200, size=(rows, cols)).astype(np.float32)
        d = tmp / f"run{j}"
        d.mkdir()
        fl = build.write_tif(d / "left.tif", L)
        fr = build.write_tif(d / "right.tif", np.roll(L, 1, axis=1))
        user = {"input": {"left": {"img": fl, "disp": [a, b]}, "right": {"img": fr}},
                "pipeline": {"matching_cost": {"matching_cost_method": ["sad", "census"][j % 2], "window_size": 3, "subpix": 1},
                             "disparity": {"disparity_method": "wta", "invalid_disparity": -9999},
                             "validation": {"validation_method": "cross_checking_accurate"}}}
        cfg_path = str(d / "user.json")
        _json.dump(user, open(cfg_path, "w"))
        chk.count(("main_right_interval", a, b, j))
        events, box, exc = _c19.traced_main(cfg_path, str(d / "out"))
        if exc is not None:
            chk.violation("total", dict(measure="main", exception=type(exc).__name__), {"interval": [a, b], "exception": repr(exc)[:300]}, f"pandora.main raised: {exc!r}")
            continue
        got = box.get("in_right_disp")
        stored = None
        if box.get("right") is not None and "disparity_interval" in box["right"]:
            stored = [float(x) for x in box["right"]["disparity_interval"].data]
        if got != [float(-b), float(-a)] or (stored is not None and stored != [float(-b), float(-a)]):
            chk.violation("right_interval_is_negated_left", {"path": "pandora.main"}, {"left_interval": [a, b], "right_dataset_interval": got, "right_product_interval": stored},
                          f"through pandora.main the right image is searched on {got} / {stored} instead of {[-b, -a]} (left interval {[a, b]})")
    _shutil.rmtree(tmp, ignore_errors=True)
    verdicts = chk.tlc_cases("RelTrace", "RelTrace.cfg", cases, label="c08", chunk=60, parallel=12)
    for cid, v in verdicts.items():
        for clause in v["failed"]:
            m = meta[cid]
            chk.violation("mirror:" + clause if m["relation"] != "cross_check_keeps_left_map" else "cross_check_keeps_left_map",
                          {"relation": m["relation"], "array": clause.split(":")[0], "interp": bool(m["interp"])},
                          {"meta": m, "detail": v["detail"]}, f"{cid}: {clause} {v['detail']} {m}")
    chk.rule = ("random problems (measure x window x subpix x masks x mono/2-band) x random legal pipelines with a validation step (cbca, 0-2 "
                "confidence steps, refinement, filters, with/without filling), each run as (L,R,[a,b]) and (R,L,[-b,-a]); distinct = distinct tuples")
    return chk.finish()
