"""C09 - the requested disparity interval is honoured and does not leak into costs.

(E) TLC, MC_MatchingCost: T_IntervalIndependent on every problem of the small scope (the cost of (pixel, disparity) does not
    depend on the other requested disparities; outside the pixel's interval it is NaN).
(B3, relational) pairs of REAL executions compared under Relations.tla by TLC, bit for bit:
    slice  - cost volume for [a, b] = slice of the cost volume for a larger interval (every measure / subpix; with cbca for
             scalar intervals, plane by plane);
    grid   - per-pixel grids give the costs of the global scalar interval inside each pixel's interval and NaN outside;
    equal  - constant grids are equivalent to the scalar interval (cost volume, flags, disparity map);
    range  - in single-scale runs every valid pixel's final disparity lies in the global interval after refinement / filters /
             cross-checking with filling, and in its own interval right after disparity and refinement; the stored
             disparity_interval is the searched interval.
"""
from __future__ import annotations

import numpy as np

from vp import dataplane as dp
from vp.core import Check
from vp.project import NAN, enc_int, enc_joint


def milli(a):
    a = np.asarray(a, dtype=np.float64) * 1000.0
    return np.where(np.isnan(a), NAN, np.rint(np.nan_to_num(a))).astype(np.int64).tolist()


def mc_only(prob, cbca=None, conf=None):
    """the cost volume after the cost-volume steps (matching cost, optional cbca, optional confidence steps, which only ADD bands)"""
    left, right = dp.make_datasets(prob)
    pipe = {"matching_cost": dp.mc_cfg(prob)}
    if cbca:
        pipe["aggregation"] = {"aggregation_method": "cbca", "cbca_distance": cbca[0], "cbca_intensity": cbca[1]}
    for j, mth in enumerate(conf or []):
        pipe["cost_volume_confidence" + (f".{j}" if j else "")] = {"confidence_method": mth}
    r = dp.StepRunner(left, right, {"pipeline": pipe})
    for _ in pipe:
        r.step()
    cv = r.m.left_cv
    r.close()
    return cv


def run(tier):
    chk = Check("C09", tier)
    rng = np.random.RandomState(chk.seed + 909)
    chk.assumptions += [
        "with cbca the slice relation is stated for scalar intervals (every pixel shares the interval, so a disparity plane is "
        "aggregated from the same inputs whatever the other planes are); per-pixel grids are compared without aggregation",
        "bit-for-bit equality through a joint rank encoding of the two executions' arrays",
    ]
    res = chk.tlc("MC_MatchingCost", "MC_MatchingCost.cfg", label="interval_theorems", workers=16, timeout=1800, heap="8g")
    for inv in res.invariant_violations:
        chk.violation("spec:" + inv, {"model": "MC_MatchingCost", "invariant": inv}, {"tlc": res.trace_text()}, "")
    cases, meta = [], {}
    n = 0
    npair = 45 if tier == "quick" else 600
    for k in range(npair):
        measure = ["sad", "ssd", "census", "zncc"][k % 4]
        win = 3 if measure in ("census", "zncc") else [1, 3][k % 2]
        s = [1, 2, 4][k % 3]
        rows, cols = win + 2 + k % 2, win + 6 + k % 3
        a = int(rng.randint(-3, 2))
        b = a + int(rng.randint(0, 3))
        ext_lo, ext_hi = int(rng.randint(0, 3)), int(rng.randint(0, 3))
        if k % 5 == 4:
            # the larger interval reaches beyond the image on one side or on both (no right pixel exists for its extreme disparities)
            if k % 2 == 0:
                ext_lo = cols + a + int(rng.randint(0, 3))
            if k % 3 != 0:
                ext_hi = cols - b + int(rng.randint(0, 3))
        cbca = (int(rng.randint(1, 4)), float([5.0, 30.0][k % 2])) if k % 3 == 1 else None
        base = dp.gen_problem(rng, rows=rows, cols=cols, win=win, s=s, measure=measure, disp=(a, b), vmax=3,
                              mask_mode=["none", "both", "left", "right"][k % 4], nbands=1)
        wide = dict(base, disp=("scalar", a - ext_lo, b + ext_hi))
        feat = {"measure": measure, "win": win, "subpix": s, "cbca": bool(cbca), "interval": [a, b], "wider": [a - ext_lo, b + ext_hi],
                "wider_exceeds_image": bool(a - ext_lo <= -cols or b + ext_hi >= cols), "masks": ["none", "both", "left", "right"][k % 4]}
        conf = [None, ["ambiguity"], None, ["risk", "interval_bounds"], ["ambiguity", "std_intensity"]][k % 5]
        feat["confidence_steps"] = conf
        try:
            cvn, cvw = mc_only(base, cbca, conf), mc_only(wide, cbca, conf)
        except Exception as exc:  # pylint: disable=broad-except
            chk.violation("total", dict(measure=measure, exception=type(exc).__name__), {"features": feat, "exception": repr(exc)[:300]}, "")
            continue
        A, B = enc_joint([cvn["cost_volume"].data, cvw["cost_volume"].data])
        n += 1
        cid = f"s{n}"
        cases.append({"id": cid, "kind": "slice", "rows": rows, "cols": cols, "nd": int(cvn.sizes["disp"]), "off": ext_lo * s, "A": A, "B": B})
        meta[cid] = dict(feat, relation="slice")
        chk.count(("slice", measure, win, s, a, b, ext_lo, ext_hi, bool(cbca)))
        if len(chk.samples) < 2:
            chk.sample({"relation": "slice", "features": feat, "narrow_pixel": A[rows // 2][cols // 2], "wide_pixel": B[rows // 2][cols // 2]})
        # grids: random per-pixel intervals inside [a - ext_lo, b + ext_hi] vs the scalar global interval
        g = dp.gen_problem(rng, rows=rows, cols=cols, win=win, s=s, measure=measure, disp=(a - ext_lo, b + ext_hi), grid=True)
        g.update(L=base["L"], R=base["R"], mL=base["mL"], mR=base["mR"])
        glo, ghi = dp.global_interval(g)
        sc = dict(base, disp=("scalar", glo, ghi))
        try:
            cvg, cvs = mc_only(g), mc_only(sc)
        except Exception as exc:  # pylint: disable=broad-except
            chk.violation("total", dict(measure=measure, exception=type(exc).__name__), {"features": feat, "exception": repr(exc)[:300]}, "")
            continue
        A, B = enc_joint([cvg["cost_volume"].data, cvs["cost_volume"].data])
        cid = f"g{n}"
        cases.append({"id": cid, "kind": "grid", "rows": rows, "cols": cols, "nd": int(cvg.sizes["disp"]), "first": glo * s, "s": s,
                      "dmin8": enc_int(np.rint(np.asarray(g["disp"][1], dtype=np.float64) * 8)),
                      "dmax8": enc_int(np.rint(np.asarray(g["disp"][2], dtype=np.float64) * 8)), "A": A, "B": B})
        meta[cid] = dict(feat, relation="grid")
        chk.count(("grid", measure, win, s, glo, ghi))
        # constant grids are equivalent to the scalar interval, through a whole pipeline
        cg = dict(base, disp=("grid", np.full((rows, cols), a), np.full((rows, cols), b)))
        pipe = {"matching_cost": dp.mc_cfg(base), "disparity": {"disparity_method": "wta", "invalid_disparity": -9999},
                "refinement": {"refinement_method": ["vfit", "quadratic"][k % 2]}, "filter": {"filter_method": "median"}}
        try:
            l1, _, m1 = dp.run_pipeline(*dp.make_datasets(base), {"pipeline": dict(pipe)})
            l2, _, m2 = dp.run_pipeline(*dp.make_datasets(cg), {"pipeline": dict(pipe)})
        except Exception as exc:  # pylint: disable=broad-except
            chk.violation("total", dict(measure=measure, exception=type(exc).__name__), {"features": feat, "exception": repr(exc)[:300]}, "")
            continue
        p1, p2 = dp.products(l1), dp.products(l2)
        names = sorted(set(p1) & set(p2))
        enc = enc_joint([p1[x] for x in names] + [p2[x] for x in names])
        cid = f"e{n}"
        cases.append({"id": cid, "kind": "equal", "rows": rows, "cols": cols, "names": names, "A": enc[:len(names)], "B": enc[len(names):]})
        meta[cid] = dict(feat, relation="constant_grid_equals_scalar")
        chk.count(("equal", measure, win, s, a, b))
    # ---- range: final disparities in the requested interval, whatever followed -------------------------------------
    nrange = 56 if tier == "quick" else 560          # full factorial measure (4) x grid (2) x tail (7), repeated
    for k in range(nrange):
        measure = ["sad", "census", "zncc", "ssd"][k % 4]
        win = 3 if measure in ("census", "zncc") else [1, 3][k % 2]
        s = [1, 2, 4][k % 3]
        a = int(rng.randint(-4, 2))
        b = a + int(rng.randint(0, 4))
        grid = (k // 4) % 2 == 1
        prob = dp.gen_problem(rng, rows=win + 4, cols=win + 9, win=win, s=s, measure=measure, disp=(a, b), grid=grid,
                              vmax=3 if measure != "zncc" else 2, mask_mode=["none", "both"][k % 2])
        glo, ghi = dp.global_interval(prob)
        steps = [("matching_cost", dp.mc_cfg(prob)), ("disparity", {"disparity_method": "wta", "invalid_disparity": [-9999, "NaN"][k % 2]})]
        tail = [[("refinement", {"refinement_method": "vfit"})],
                [("refinement", {"refinement_method": "quadratic"}), ("filter", {"filter_method": "bilateral"})],
                [("filter", {"filter_method": "median"}), ("refinement", {"refinement_method": "vfit"})],
                [("refinement", {"refinement_method": "vfit"}), ("validation", {"validation_method": "cross_checking_accurate", "interpolated_disparity": "mc-cnn"})],
                [("validation", {"validation_method": "cross_checking_accurate", "interpolated_disparity": "sgm"}), ("filter", {"filter_method": "median", "filter_size": 5})],
                [("refinement", {"refinement_method": "quadratic"}), ("refinement.1", {"refinement_method": "vfit"}), ("filter", {"filter_method": "median"})],
                [("filter", {"filter_method": "bilateral", "sigma_space": 1.0, "sigma_color": 2.0}), ("refinement", {"refinement_method": ["vfit", "quadratic"][k % 2]})]][(k // 8) % 7]
        has_val = any(nm.startswith("validation") for nm, _ in tail)
        if grid and has_val:
            tail = tail[:1] if not tail[0][0].startswith("validation") else [("refinement", {"refinement_method": "vfit"})]
            has_val = False
        steps += tail
        cfg = {"pipeline": {nm: dict(c) for nm, c in steps}}
        left, right = dp.make_datasets(prob)
        feat = {"measure": measure, "subpix": s, "grid": grid, "pipeline": [nm for nm, _ in steps], "interval": [glo, ghi],
                "machine_ran_multiscale_before": k % 4 == 1}
        chk.count(("range", measure, win, s, glo, ghi, grid, (k // 8) % 7, k))
        used = None
        try:
            if k % 4 == 1:
                # notebook-style history: the machine object has just run a MULTISCALE pipeline on other images; nothing of it
                # (scale factor, number of scales, pyramids) may leak into this single-scale run
                used = dp.run_pipeline(*dp.make_datasets(dp.gen_problem(rng, rows=14, cols=20, win=1, s=1, measure="sad", disp=(-2, 2))),
                                       {"pipeline": {"matching_cost": {"matching_cost_method": "sad", "window_size": 1, "subpix": 1},
                                                     "disparity": {"disparity_method": "wta", "invalid_disparity": -9999},
                                                     "multiscale": {"multiscale_method": "fixed_zoom_pyramid", "num_scales": 2, "scale_factor": 2}}})[2]
            r = dp.StepRunner(left, right, cfg, machine=used)
            for nm, c in steps:
                r.step()
                kind = nm.split(".")[0]
                if kind in ("matching_cost",):
                    continue
                ds = r.m.left_disparity
                per_pixel = grid and kind in ("disparity", "refinement") and all(x.split(".")[0] in ("matching_cost", "disparity", "refinement") for x in list(cfg["pipeline"])[:list(cfg["pipeline"]).index(nm) + 1])
                attr = [int(ds["disparity_interval"].data[0]), int(ds["disparity_interval"].data[1])] if "disparity_interval" in ds else [0, 0]
                n += 1
                cid = f"r{n}"
                case = {"id": cid, "kind": "range", "rows": prob["rows"], "cols": prob["cols"], "per_pixel": bool(per_pixel),
                        "lo": enc_int(np.floor(prob["disp"][1])) if per_pixel else glo, "hi": enc_int(np.ceil(prob["disp"][2])) if per_pixel else ghi,
                        "glo": glo, "ghi": ghi, "attr": attr, "clause": "per_pixel_interval" if per_pixel else "global_interval",
                        "d3": milli(ds["disparity_map"].data), "vm": enc_int(ds["validity_mask"].data)}
                cases.append(case)
                meta[cid] = dict(feat, relation="range", after=nm)
            r.close()
        except Exception as exc:  # pylint: disable=broad-except
            chk.violation("total", dict(measure=measure, exception=type(exc).__name__), {"features": feat, "exception": repr(exc)[:300]}, f"pipeline raised: {feat}")
    # ---- range, sparse maps: intervals that exclude 0, tall narrow images with whole invalid columns and few valid pixels, filling of
    # occlusions / mismatches (a filled value comes from valid pixels, all of which lie in the interval) --------------------------------
    nsparse = 40 if tier == "quick" else 400
    for k in range(nsparse):
        a = [3, -5, 2, -4][k % 4]
        b = a + [2, 2, 1, 3][k % 4]
        rows, cols = int(rng.randint(7, 12)), int(rng.randint(abs(a) + 3, abs(a) + 6))
        prob = dp.gen_problem(rng, rows=rows, cols=cols, win=1, s=1, measure=["sad", "ssd"][k % 2], disp=(a, b), vmax=5, mask_mode="both")
        interp = ["sgm", "mc-cnn"][(k // 2) % 2]
        scattered = (interp == "mc-cnn" and k % 4 >= 2) or k % 8 == 7
        for side in ("mL", "mR"):
            if scattered:
                # very few valid pixels anywhere: a flagged pixel may have NO valid pixel in sight along any scan direction
                m = np.where(rng.rand(rows, cols) < [0.75, 0.88][k % 2], 2, 0).astype(np.int16)
            else:
                m = np.where(rng.rand(rows, cols) < [0.6, 0.85][k % 2], 2, 0).astype(np.int16)
                m[0, :] = 0                           # a valid first line ...
                for c in rng.choice(cols, size=int(rng.randint(1, 4)), replace=False):
                    m[1:, c] = 2                      # ... above columns that are invalid down to the last line
            prob[side] = m
        glo, ghi = a, b
        steps = [("matching_cost", dp.mc_cfg(prob)), ("disparity", {"disparity_method": "wta", "invalid_disparity": [-9999, "NaN"][k % 2]})]
        if scattered:
            steps.append(("filter", {"filter_method": "median", "filter_size": 3}))      # breaks the left / right symmetry of the two maps
        steps.append(("validation", {"validation_method": "cross_checking_accurate", "cross_checking_threshold": 0.0, "interpolated_disparity": interp}))
        cfg = {"pipeline": {nm: dict(c) for nm, c in steps}}
        feat = {"measure": prob["measure"], "subpix": 1, "grid": False, "pipeline": [nm for nm, _ in steps], "interval": [glo, ghi], "sparse": True, "fill": interp}
        chk.count(("range_sparse", rows, cols, a, b, interp, k))
        try:
            l, rr, _ = dp.run_pipeline(*dp.make_datasets(prob), cfg)
        except Exception as exc:  # pylint: disable=broad-except
            chk.violation("total", dict(measure=prob["measure"], exception=type(exc).__name__), {"features": feat, "exception": repr(exc)[:300]}, f"pipeline raised: {feat}")
            continue
        for tag, ds, lo, hi in (("L", l, glo, ghi), ("R", rr, -ghi, -glo)):
            n += 1
            cid = f"q{n}"
            attr = [int(ds["disparity_interval"].data[0]), int(ds["disparity_interval"].data[1])] if "disparity_interval" in ds else [0, 0]
            cases.append({"id": cid, "kind": "range", "rows": rows, "cols": cols, "per_pixel": False, "lo": lo, "hi": hi, "glo": lo, "ghi": hi, "attr": attr,
                          "clause": "global_interval", "d3": milli(ds["disparity_map"].data), "vm": enc_int(ds["validity_mask"].data)})
            meta[cid] = dict(feat, relation="range", after="validation", side=tag)
    verdicts = chk.tlc_cases("RelTrace", "RelTrace.cfg", cases, label="c09", chunk=60, parallel=12)
    compared = 0
    for cid, v in verdicts.items():
        compared += v.get("compared", 0)
        for clause in v["failed"]:
            m = meta[cid]
            chk.violation(clause, {"clause": clause, "relation": m["relation"], "measure": m["measure"], "after": m.get("after", "").split(".")[0]},
                          {"meta": m, "detail": v["detail"]}, f"{cid}: {clause} {v['detail']} {m}")
    chk.extra["cells_compared"] = compared
    chk.rule = ("pairs of real runs: nested intervals (each measure x subpix x window, masks, with/without cbca), random per-pixel grids vs "
                "their global scalar interval, constant grids vs scalar through a pipeline; single-scale pipelines with refinement / filters / "
                "cross-checking with filling, checked after every step; distinct = distinct parameter tuples")
    return chk.finish()
