"""C10 - filters change only valid pixels, to an average of their valid neighbours.

(E) TLC, MC_Filter: every 3x3 map over {0, 2, 4, invalid}: frame and enclosure theorems of Filter.tla (the median lies
    between the extreme valid values of its window; a constant window is a fixpoint; Kth is a total order statistic).
(B3) direct drive of the real MedianFilter / BilateralFilter / MedianForIntervalsFilter.filter_disparity on maps of shapes
    around the 50/100-pixel processing blocks, filter_size 1/3/5, sigma_space giving odd and even windows, invalid pixels
    anywhere (0, 10 %, 60 %, 100 %), quarter-valued disparities (exact median) and arbitrary floats (rank-encoded, enclosure);
    every pixel decided by TLC against the block-free specification: invalid pixels and edge pixels unchanged, median
    value, bilateral enclosure, validity mask unchanged, everything else unchanged.
"""
from __future__ import annotations

import numpy as np

from vp import build
from vp.core import Check
from vp.project import conf_same, conf_snapshot, enc_rank_joint, enc_scaled, same_bits, NAN


def shapes(tier):
    edge = [1, 2, 3, 4, 49, 50, 51, 52, 99, 100, 101, 102]
    out = [(a, b) for a in (1, 2, 3, 4, 5) for b in (1, 3, 4, 6)]
    if tier == "quick":
        out += [(k, 6) for k in edge] + [(5, k) for k in edge] + [(51, 52), (101, 54)]
    else:
        out += [(k, 7) for k in edge] + [(7, k) for k in edge] + [(a, b) for a in (49, 50, 51, 101, 102) for b in (50, 52, 100, 101)]
    return out


def bil_width(rows, cols, sigma_space):
    return min(rows, cols, int(3 * sigma_space + 1))


def one_case(chk, cid, method, cfg, rows, cols, rng, mode, dens, inv):
    from pandora import filter as pfilter
    if mode == "exact":
        d = (rng.randint(-12, 13, size=(rows, cols)) / 4.0).astype(np.float32)
    else:
        d = (rng.randn(rows, cols) * 3).astype(np.float32)
        d[rng.rand(rows, cols) < 0.2] = np.float32(1.25)      # ties
    vm = np.where(rng.rand(rows, cols) < dens, rng.choice([1, 2, 64, 128, 256, 512, 66], size=(rows, cols)), rng.choice([0, 0, 4, 8, 16, 32], size=(rows, cols)))
    invalid = (vm & 0b1111000011) != 0
    if rng.rand() < 0.35 and (~invalid).any() and np.isfinite(d[~invalid]).any():
        # occluded / mismatched pixels KEEP a finite disparity (cross-checking leaves it in place): here just above every valid
        # one, close enough for the range kernel of the bilateral filter to weigh it - it must not enter any mean or median
        d[invalid] = np.float32(np.nanmax(d[~invalid]) + 1.5)
    else:
        d[invalid] = inv
    conf = (["confidence_from_ambiguity", "confidence_from_interval_bounds_inf", "confidence_from_interval_bounds_sup"],
            np.stack([rng.rand(rows, cols), d - rng.randint(0, 3, size=(rows, cols)), d + rng.randint(0, 3, size=(rows, cols))], axis=2))
    if method == "median_for_intervals":
        conf[1][invalid, 1:] = np.nan
    ds = build.make_disp(d, vm=vm, conf=conf)
    before_d = ds["disparity_map"].data.copy()
    before_vm = ds["validity_mask"].data.copy()
    before_conf = ds["confidence_measure"].data.copy()
    # image_shape is the shape announced when the step is configured (it sizes the margins); the map that is filtered
    # later need not have it (another scale of the pyramid, a cropped map): the result must depend on the map alone
    shape = [(rows, cols), (rows, cols), (2 * rows + 1, cols + 7), (2, 3), (1, max(cols - 1, 1))][rng.randint(5)]
    f = pfilter.AbstractFilter(cfg=dict(cfg), image_shape=shape, step=1)
    f.filter_disparity(ds)
    after_d = ds["disparity_map"].data
    after_conf = ds["confidence_measure"].data
    mask_ok = same_bits(before_vm, ds["validity_mask"].data)
    cases = []
    if method == "median_for_intervals":
        w = cfg["filter_size"]
        frame_other = same_bits(before_d, after_d) and same_bits(before_conf[:, :, 0], after_conf[:, :, 0]) \
            and list(map(str, ds.coords["indicator"].data)) == conf[0]
        for b in (1, 2):
            inp, out = before_conf[:, :, b], after_conf[:, :, b]
            bad = ~np.isfinite(inp)
            cases.append((f"{cid}b{b}", "median", w, inp, out, bad, frame_other))
    else:
        w = cfg["filter_size"] if method == "median" else bil_width(rows, cols, cfg["sigma_space"])
        bad = invalid | ~np.isfinite(before_d)
        cases.append((cid, method, w, before_d, after_d, bad, same_bits(before_conf, after_conf)))
    res = []
    for (i, mth, w, inp, out, bad, frame_other) in cases:
        if mode == "exact" and mth == "median":
            ei, eo = enc_scaled(inp, 8), enc_scaled(out, 8)
            m = "exact"
        else:
            ei, eo = enc_rank_joint(inp, out, snap=2e-6 if mth == "bilateral" else 0.0)
            m = "rank"
        # pixels that are not filtered must keep their value bit for bit: compared here, reported through the encodings
        ei = np.asarray(ei, dtype=np.int64)
        eo = np.asarray(eo, dtype=np.int64)
        same = np.array([[same_bits(np.float32(a), np.float32(b)) for a, b in zip(ra, rb)] for ra, rb in zip(inp, out)])
        eo = np.where(bad, np.where(same, ei, ei + 1), eo)
        res.append({"id": i, "step": "filter", "method": mth, "w": int(w), "rows": rows, "cols": cols, "mode": m,
                    "bad": bad.tolist(), "d": ei.tolist(), "out": {"d": eo.tolist(), "mask_ok": bool(mask_ok), "frame_other": bool(frame_other)}})
    return res


def run(tier):
    chk = Check("C10", tier)
    rng = np.random.RandomState(chk.seed + 1010)
    chk.assumptions += [
        "median on quarter-valued disparities is compared exactly (scale 8); on arbitrary floats through a joint rank encoding "
        "(even count: strictly between the two middle values)",
        "the Gaussian weights of the bilateral mean cannot be evaluated by TLC (no exp): the weighted-mean identity is decided through "
        "enclosure between the extreme valid window values (outputs within 2e-6 relative of an input value are snapped to it), the "
        "frame, and equality with the block-free specification at sizes straddling the 50-pixel blocks",
        "the bilateral window of width w = min(rows, cols, int(3 sigma_space + 1)) is rows [r - w//2, r - w//2 + w): asymmetric for even w",
    ]
    res = chk.tlc("MC_Filter", "MC_Filter.cfg", label="filter_theorems", workers=8, timeout=300)
    for inv in res.invariant_violations:
        chk.violation("spec:" + inv, {"model": "MC_Filter", "invariant": inv}, {"tlc": res.trace_text()}, "")
    cases, meta = [], {}
    n = 0
    confs = [("median", {"filter_method": "median", "filter_size": 1}), ("median", {"filter_method": "median", "filter_size": 3}),
             ("median", {"filter_method": "median", "filter_size": 5}),
             ("bilateral", {"filter_method": "bilateral", "sigma_space": 0.4, "sigma_color": 0.5}),
             ("bilateral", {"filter_method": "bilateral", "sigma_space": 1.0, "sigma_color": 2.0}),
             ("bilateral", {"filter_method": "bilateral", "sigma_space": 2.0, "sigma_color": 0.5}),
             ("median_for_intervals", {"filter_method": "median_for_intervals", "filter_size": 3}),
             ("median_for_intervals", {"filter_method": "median_for_intervals", "filter_size": 5})]
    for (rows, cols) in shapes(tier):
        big = rows * cols > 2000
        picks = confs if not big else [confs[(rows + cols + j) % len(confs)] for j in range(2 if tier == "quick" else 4)]
        for j, (method, cfg) in enumerate(picks):
            n += 1
            mode = ["exact", "rank"][(n + j) % 2]
            dens = [0.0, 0.1, 0.6, 1.0][n % 4] if not big else [0.1, 0.6][n % 2]
            inv = [-9999.0, float("nan")][n % 2]
            feat = {"method": method, "rows": rows, "cols": cols, "mode": mode, "invalid_density": dens,
                    "filter_size": cfg.get("filter_size"), "sigma_space": cfg.get("sigma_space"),
                    "smaller_than_filter": bool(method != "bilateral" and min(rows, cols) < cfg.get("filter_size", 1) - 1)}
            chk.count((method, rows, cols, mode, dens, str(cfg)))
            try:
                cs = one_case(chk, f"f{n}", method, cfg, rows, cols, rng, mode, dens, inv)
            except Exception as exc:  # pylint: disable=broad-except
                chk.violation("total", dict(method=method, exception=type(exc).__name__, smaller_than_filter=feat["smaller_than_filter"]),
                              {"features": feat, "exception": repr(exc)[:300]}, f"filter_disparity raised {type(exc).__name__} on {feat}")
                continue
            for c in cs:
                cases.append(c)
                meta[c["id"]] = feat
            if len(chk.samples) < 3 and rows * cols <= 20:
                chk.sample({"features": feat, "in": cs[0]["d"], "bad": cs[0]["bad"], "out": cs[0]["out"]["d"]})
    # ---- median_for_intervals with regularisation, applied 1..3 times (relational: against the same filter without it) ----
    from pandora import filter as pfilter
    from vp.project import enc_int, enc_rank
    for k in range(12 if tier == "quick" else 120):
        rows, cols = int(rng.randint(3, 9)), int(rng.randint(6, 16))
        d = (rng.randint(-8, 9, size=(rows, cols)) / 2.0).astype(np.float32)
        vm = np.where(rng.rand(rows, cols) < 0.15, rng.choice([1, 64, 256], size=(rows, cols)), rng.choice([0, 0, 4, 8], size=(rows, cols)))
        invalid = (vm & 0b1111000011) != 0
        amb = rng.choice([0.0, 0.2, 0.5, 0.9, 1.0], size=(rows, cols)).astype(np.float32)
        inf = d - rng.randint(0, 4, size=(rows, cols))
        sup = d + rng.randint(0, 4, size=(rows, cols))
        inf[invalid] = np.nan
        sup[invalid] = np.nan
        names = ["confidence_from_ambiguity", "confidence_from_interval_bounds_inf", "confidence_from_interval_bounds_sup"]
        fs = int([1, 3][k % 2])
        reps = 1 + k % 3
        cfg0 = {"filter_method": "median_for_intervals", "filter_size": fs}
        cfg1 = dict(cfg0, regularization=True, ambiguity_threshold=float([0.4, 0.6, 0.95][k % 3]), ambiguity_kernel_size=int([1, 3, 5][k % 3]),
                    vertical_depth=int(k % 3), quantile_regularization=1.0)
        feat = {"method": "median_for_intervals", "regularization": True, "repetitions": reps, "rows": rows, "cols": cols}
        chk.count(("reg", rows, cols, fs, reps, k))
        try:
            a = build.make_disp(d, vm=vm, conf=(names, np.stack([amb, inf, sup], axis=2)))
            b = build.make_disp(d, vm=vm, conf=(names, np.stack([amb, inf, sup], axis=2)))
            # the median part is idempotent on neither run, so both runs apply the median the same number of times
            for _ in range(reps):
                pfilter.AbstractFilter(cfg=dict(cfg0), image_shape=(rows, cols), step=1).filter_disparity(a)
            for j in range(reps):
                pfilter.AbstractFilter(cfg=dict(cfg1) if j == reps - 1 else dict(cfg0), image_shape=(rows, cols), step=1).filter_disparity(b)
            # repeated REGULARISATION on the same dataset (what a pipeline with filter, filter.1 does): flags must stay sets
            c = build.make_disp(d, vm=vm, conf=(names, np.stack([amb, inf, sup], axis=2)))
            for _ in range(reps):
                pfilter.AbstractFilter(cfg=dict(cfg1), image_shape=(rows, cols), step=1).filter_disparity(c)
        except Exception as exc:  # pylint: disable=broad-except
            chk.violation("total", dict(method="median_for_intervals", exception=type(exc).__name__, smaller_than_filter=False),
                          {"features": feat, "exception": repr(exc)[:300]}, f"median_for_intervals raised on {feat}")
            continue
        for tag, run1 in (("one", b), ("rep", c)):
            st = np.stack([a["confidence_measure"].data[:, :, 1], a["confidence_measure"].data[:, :, 2],
                           run1["confidence_measure"].data[:, :, 1], run1["confidence_measure"].data[:, :, 2]])
            enc = enc_rank(st)
            cid = f"reg{k}{tag}"
            cases.append({"id": cid, "step": "regularize", "rows": rows, "cols": cols, "inf0": enc[0], "sup0": enc[1], "inf1": enc[2], "sup1": enc[3],
                          "vm0": enc_int(vm), "vm1": enc_int(run1["validity_mask"].data), "strict": tag == "one", "check_widen": tag == "one",
                          "frame_other": bool(same_bits(a["disparity_map"].data, run1["disparity_map"].data)
                                              and same_bits(a["confidence_measure"].data[:, :, 0], run1["confidence_measure"].data[:, :, 0]))})
            meta[cid] = dict(feat, rows=rows, cols=cols, variant=tag)
            if tag == "rep" and reps > 1:
                # with repeated regularisation the bands are compared with the unregularised run only for widening
                pass
    # ---- bilateral: the spatial weight depends on the distance to the filtered pixel only (even and odd window widths) ------------
    for sg in (0.9, 1.0, 1.2, 5.0 / 3, 2.0, 2.5):
        rows = cols = 13
        r0 = c0 = 6
        pairs = [((0, 1), (0, -1)), ((1, 0), (-1, 0)), ((1, 1), (-1, -1)), ((1, -1), (-1, 1)), ((0, 1), (1, 0)), ((0, -1), (-1, 0))]
        width = min(rows, cols, int(3 * sg + 1))
        if width < 3:
            continue
        try:
            def probe(dr, dc):
                d = np.zeros((rows, cols), dtype=np.float32)
                d[r0 + dr, c0 + dc] = 1.0
                ds = build.make_disp(d, vm=np.zeros((rows, cols), dtype=int))
                pfilter.AbstractFilter(cfg={"filter_method": "bilateral", "sigma_space": float(sg), "sigma_color": 2.0}, image_shape=(rows, cols),
                                       step=1).filter_disparity(ds)
                return float(ds["disparity_map"].data[r0, c0])
            a = [int(round(1e6 * probe(*p))) for p, _ in pairs]
            b = [int(round(1e6 * probe(*q))) for _, q in pairs]
        except Exception as exc:  # pylint: disable=broad-except
            chk.violation("total", dict(method="bilateral", exception=type(exc).__name__, smaller_than_filter=False), {"sigma_space": sg, "exception": repr(exc)[:300]},
                          f"bilateral raised on a 13x13 map with sigma_space {sg}")
            continue
        cid = f"sym{int(sg * 100)}"
        cases.append({"id": cid, "step": "bilateral_symmetry", "a": a, "b": b})
        meta[cid] = {"method": "bilateral", "sigma_space": sg, "window_width": width, "rows": rows, "cols": cols, "probe_pairs": [[list(p), list(q)] for p, q in pairs]}
        chk.count(("bilsym", sg))
    # ---- bilateral: the spatial kernel is the Gaussian of the configured sigma_space, whatever filter ran before in the process -----
    try:
        vs, sig = [], []
        for sg in (2.0, 2.2, 1.0, 1.2, 2.2, 2.0):          # pairs of sigmas that give the SAME window width (7, 7, 4, 4)
            rows = cols = 13
            r0 = c0 = 6

            def probe(dc):
                d = np.zeros((rows, cols), dtype=np.float32)
                d[r0, c0 + dc] = 1.0
                ds = build.make_disp(d, vm=np.zeros((rows, cols), dtype=int))
                pfilter.AbstractFilter(cfg={"filter_method": "bilateral", "sigma_space": float(sg), "sigma_color": 1000.0}, image_shape=(rows, cols),
                                       step=1).filter_disparity(ds)
                return float(ds["disparity_map"].data[r0, c0])
            r1, r2 = probe(-1), probe(-2)
            v = (np.log(r1 / r2) * 2.0 * sg * sg / 3.0) if (r1 > 0 and r2 > 0) else -1.0
            vs.append(int(round(1e6 * v)) if abs(v) < 1000 else 1000000009)
            sig.append(int(round(1000 * sg)))
        cases.append({"id": "law", "step": "bilateral_law", "v": vs, "sigma1000": sig})
        meta["law"] = {"method": "bilateral", "rows": 13, "cols": 13, "sigmas": sig}
        chk.count(("billaw",))
    except Exception as exc:  # pylint: disable=broad-except
        chk.violation("total", dict(method="bilateral", exception=type(exc).__name__, smaller_than_filter=False), {"exception": repr(exc)[:300]},
                      f"bilateral raised on a 13x13 probe map: {exc!r}")
    # ---- a fully invalid, grid-aligned 100x100 block followed by valid blocks (block bookkeeping) ----------------------------------
    for (rows, cols, fsz) in ([(106, 160, 3)] if tier == "quick" else [(106, 160, 3), (108, 230, 5), (210, 106, 3), (150, 250, 3)]):
        try:
            d = (rng.randint(-12, 13, size=(rows, cols)) / 4.0).astype(np.float32)
            vm = np.zeros((rows, cols), dtype=int)
            vm[0:104, 0:104] = 64       # covers every centre pixel of the first 100x100 processing block, whatever the radius
            if rows > 204 and cols > 104:
                vm[100:204, 0:104] = 1
            ds = build.make_disp(d, vm=vm)
            before = ds["disparity_map"].data.copy()
            pfilter.AbstractFilter(cfg={"filter_method": "median", "filter_size": fsz}, image_shape=(rows, cols), step=1).filter_disparity(ds)
            n += 1
            cid = f"blk{n}"
            bad = (vm & 0b1111000011) != 0
            ei = np.asarray(enc_scaled(before, 8), dtype=np.int64)
            eo = np.asarray(enc_scaled(ds["disparity_map"].data, 8), dtype=np.int64)
            cases.append({"id": cid, "step": "filter", "method": "median", "w": fsz, "rows": rows, "cols": cols, "mode": "exact",
                          "bad": bad.tolist(), "d": ei.tolist(), "out": {"d": eo.tolist(), "mask_ok": True, "frame_other": True}})
            meta[cid] = {"method": "median", "rows": rows, "cols": cols, "invalid_block": True}
            chk.count(("invalid_block", rows, cols, fsz))
        except Exception as exc:  # pylint: disable=broad-except
            chk.violation("total", dict(method="median", exception=type(exc).__name__, smaller_than_filter=False), {"exception": repr(exc)[:300]}, "")
    verdicts = chk.tlc_cases("PipelineTrace", "PipelineTrace.cfg", cases, label="c10", chunk=10, parallel=14, heap="6g", timeout=2400)
    for cid, v in verdicts.items():
        for clause in v["failed"]:
            m = meta[cid]
            chk.violation(clause, {"clause": clause, "method": m["method"], "blocks": bool(max(m["rows"], m["cols"]) > 50),
                                   "repetitions": m.get("repetitions", 1)},
                          {"features": m, "detail": v["detail"]}, f"{cid}: {clause} {v['detail']} {m}")
    chk.rule = ("maps of shapes {1..5}x{1..6} and strips/squares with a dimension in {1..4, 49..52, 99..102} x method (median 1/3/5, bilateral "
                "sigma_space 0.4/1.0/2.0, median_for_intervals 3/5) x invalid density (0, 10 %, 60 %, 100 %) x exact/rank value mode; "
                "distinct = distinct parameter tuples")
    return chk.finish()
