"""C11 - cross-based aggregation averages costs over the combined support region.

(E) TLC, MC_Aggregation: exhaustive small scope (3x4 images over {0, 10}, one masked pixel anywhere, distance 1..3): NaN
    preservation, plane independence, region well-formedness (contains the pixel, inside the image, arms <= distance - 1).
(B3) the real CrossBasedCostAggregation.cost_volume_aggregation on structurally enumerated cases (sizes 3..7 x 4..9, window
    offset 0/1, subpix 1/2/4, masks at any position on either image, intensity 0.5/5/30, distance 1/2/3/5, image values chosen
    so that arms stop for each reason, integer costs with NaN holes); every cell decided by TLC: sum over the combined support
    region / number of pixels of the region, as an exact rational; NaN stays NaN; nothing else becomes NaN.
"""
from __future__ import annotations

import numpy as np

from vp import build
from vp.core import Check
from vp.project import enc_frac, enc_int, enc_scaled, NAN


def run(tier):
    from pandora import aggregation
    chk = Check("C11", tier)
    rng = np.random.RandomState(chk.seed + 1111)
    chk.assumptions += [
        "cbca_distance = 1 is driven without masks only: there the code grants the one-pixel minimum from the pixel's own validity, "
        "while every larger distance stops the arm at a masked neighbour; the statement does not say which reading applies",
        "integer image values and costs; aggregated costs projected to fractions with denominator <= 256 (region sizes <= 81)",
    ]
    res = chk.tlc("MC_Aggregation", "MC_Aggregation_thorough.cfg" if tier == "thorough" else "MC_Aggregation.cfg", label="cbca_theorems", workers=16, timeout=1500, heap="6g")
    for inv in res.invariant_violations:
        chk.violation("spec:" + inv, {"model": "MC_Aggregation", "invariant": inv}, {"tlc": res.trace_text()}, "")
    vals = np.array([0, 4, 9, 10, 11, 40])
    cases, meta = [], {}
    ncase = 90 if tier == "quick" else 900
    for k in range(ncase):
        off = k % 2
        rows = int(rng.randint(3, 7)) + 2 * off
        cols = int(rng.randint(4, 9)) + 2 * off
        s = int([1, 2, 4, 4][k % 4])
        dist = int([2, 3, 5, 1, 2][k % 5])
        inten = float([0.5, 5.0, 30.0][k % 3])
        whole = (k % 7 == 3)
        if whole:
            # arms that span the whole image: cbca_distance >= the image size, flat images, no window offset
            off, s = 0, 1
            rows, cols = int(rng.randint(2, 5)), int(rng.randint(2, 6))
            dist = max(rows, cols) + int(rng.randint(0, 3))
        nd = int(rng.randint(1, 4)) * s - (s - 1) if s > 1 else int(rng.randint(1, 5))
        nd = max(nd, 1)
        dmin = int(rng.randint(-2, 2)) if s == 1 else int(rng.randint(-2, 0))
        L = vals[rng.randint(0, len(vals), size=(rows, cols))]
        R = vals[rng.randint(0, len(vals), size=(rows, cols))]
        if whole:
            L[:, :] = 7
            R[:, :] = 7
        elif k % 3 == 0 and s == 1:       # large flat areas so that arms reach cbca_distance
            L[:, :] = 10
            R[:, :] = 10
            L[rng.randint(rows), rng.randint(cols)] = 40
        mask_mode = ["none", "left", "right", "both"][k % 4] if dist > 1 else "none"

        def mk():
            m = np.zeros((rows, cols), dtype=np.int16)
            for _ in range(int(rng.randint(1, 4))):
                m[rng.randint(rows), rng.randint(cols)] = rng.choice([1, 2])
            return m
        mL = mk() if mask_mode in ("left", "both") else None
        mR = mk() if mask_mode in ("right", "both") else None
        costs = rng.randint(0, 10, size=(rows, cols, nd)).astype(np.float32)
        costs[rng.rand(rows, cols, nd) < [0.0, 0.15, 0.4][k % 3]] = np.nan
        if off:
            costs[:off, :, :] = np.nan
            costs[-off:, :, :] = np.nan
            costs[:, :off, :] = np.nan
            costs[:, -off:, :] = np.nan
        # a cost is not computable where the correspondent leaves the image (as the matching-cost step would leave it)
        for j in range(nd):
            d = dmin + j / float(s)
            for c in range(cols):
                if c + np.floor(d) < off or c + np.ceil(d) > cols - 1 - off:
                    costs[:, c, j] = np.nan
        cv = build.make_cv(costs, dmin=dmin, subpix=s, window_size=1 + 2 * off)
        left = build.make_image(L, mask=mL, disp=(dmin, dmin + (nd - 1) // s))
        right = build.make_image(R, mask=mR)
        reused = (k % 4 == 1)
        feat = {"rows": rows, "cols": cols, "offset": off, "subpix": s, "distance": dist, "intensity": inten, "masks": mask_mode, "nd": nd,
                "distance_reaches_image_size": bool(dist >= max(rows, cols)), "aggregation_object_reused": reused}
        chk.count((rows, cols, off, s, dist, inten, mask_mode, nd, k))
        before = cv["cost_volume"].data.copy()
        try:
            agg = aggregation.AbstractAggregation(aggregation_method="cbca", cbca_intensity=inten, cbca_distance=dist)
            if reused:
                # the machine uses ONE aggregation object for the left and then the right cost volume: a first volume of the same
                # shape with another NaN pattern must leave nothing behind
                decoy = before.copy()
                decoy[rng.rand(*decoy.shape) < 0.5] = np.nan
                agg.cost_volume_aggregation(right, left, build.make_cv(decoy, dmin=dmin, subpix=s, window_size=1 + 2 * off))
            agg.cost_volume_aggregation(left, right, cv)
        except Exception as exc:  # pylint: disable=broad-except
            chk.violation("total", dict(distance=dist, subpix=s, exception=type(exc).__name__), {"features": feat, "exception": repr(exc)[:300]},
                          f"cost_volume_aggregation raised on {feat}")
            continue
        out = cv["cost_volume"].data
        cid = f"a{k}"
        case = {"id": cid, "step": "aggregation", "rows": rows, "cols": cols, "off": off, "s": s, "dist": dist,
                "int2": int(round(2 * s * inten)), "L": enc_int(L), "R": enc_int(R),
                "mL": enc_int(mL if mL is not None else np.zeros((rows, cols), int)),
                "mR": enc_int(mR if mR is not None else np.zeros((rows, cols), int)),
                "cv": enc_scaled(before, 1), "first": dmin * s,
                "out": [[[enc_frac(v) for v in px] for px in row] for row in np.asarray(out, dtype=np.float64)]}
        cases.append(case)
        meta[cid] = feat
        if len(chk.samples) < 2:
            chk.sample({"features": feat, "L": case["L"], "R": case["R"], "cv_px": case["cv"][rows // 2][cols // 2], "out_px": case["out"][rows // 2][cols // 2]})
    verdicts = chk.tlc_cases("PipelineTrace", "PipelineTrace.cfg", cases, label="c11", chunk=15, parallel=14, timeout=1800, heap="6g")
    for cid, v in verdicts.items():
        for clause in v["failed"]:
            m = meta[cid]
            chk.violation(clause, {"clause": clause, "subpix": m["subpix"], "distance": m["distance"], "masks": m["masks"], "offset": m["offset"]},
                          {"features": m, "detail": v["detail"]}, f"{cid}: {clause} {v['detail']} {m}")
    chk.rule = ("random image pairs over {0,4,9,10,11,40} (flat areas, jumps >= and < each intensity), sizes 3..7 x 4..9 (+2 with window offset 1), "
                "subpix 1/2/4, distance 1/2/3/5, intensity 0.5/5/30, masks none/left/right/both, integer cost volumes of 1-4 planes with NaN holes; "
                "distinct = distinct parameter tuples")
    return chk.finish()
