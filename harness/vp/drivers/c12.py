"""C12 - confidence bands follow their definitions, bracket the winner, only add bands.

(E) TLC, MC_Confidence: every cost row of 4 samples over {0..3, NaN} (x eta grids x thresholds): 0 <= ambiguity integral <= K*nd,
    0 <= risk_min <= risk_max, inf <= winner-takes-all <= sup, an all-NaN row gives the maximal count.
(B3) direct drive of the four real confidence classes on integer cost volumes (NaN holes, ties, all-NaN pixels; eta grids with
    dyadic and default steps; thresholds), every pixel decided by TLC in exact integer arithmetic (Confidence.tla): ambiguity
    integral (either side accepted on an exact float tie), normalised ambiguity (range, order, extremes), risk_max / risk_min,
    interval bounds with widening and NaN for all-NaN pixels, bounds bracket the winner, std_intensity through an integer
    enclosure; band bookkeeping (names, suffixes, old bands bit-identical, cost volume and flags unchanged).
(B3, relational) pipelines with 1-4 confidence steps in any order vs the twin pipeline without them: disparity map and flags equal.
"""
from __future__ import annotations

import numpy as np
import xarray as xr

from vp import build
from vp import dataplane as dp
from vp.core import Check
from vp.project import NAN, conf_snapshot, enc_int, enc_joint, enc_scaled, same_bits


def enc_milli(a):
    a = np.asarray(a, dtype=np.float64) * 1000.0
    # (values that do not fit TLC's 32-bit integers become the INEXACT sentinel, which no specification value equals)
    r = np.where(np.isnan(a), NAN, np.rint(np.nan_to_num(a, posinf=4e9, neginf=-4e9)))
    return np.where(np.abs(r) > 2.0e9, 1000000009, r).astype(np.int64).tolist()


def gen_cv(rng, rows, cols, nd, span, low=0):
    """integer costs in [low, low + span] (the normalisation by the global extremes must not assume a zero minimum)"""
    c = rng.randint(0, span + 1, size=(rows, cols, nd)).astype(np.float32)
    c[rng.rand(rows, cols, nd) < [0.0, 0.15, 0.35][rng.randint(3)]] = np.nan
    c[rng.rand(rows, cols) < 0.1] = np.nan            # all-NaN pixels
    c[0, 0, 0], c[0, 0, -1] = 0, span                  # the global extremes occur
    return c + np.float32(low)


def run(tier):
    from pandora import cost_volume_confidence as cvc
    chk = Check("C12", tier)
    rng = np.random.RandomState(chk.seed + 1212)
    chk.assumptions += [
        "min-type measures with integer costs (exact integer arithmetic in the specification); on an exact tie between a normalised cost "
        "and best + eta either side is accepted (float arithmetic)",
        "normalised ambiguity (percentile clipping, np.percentile interpolation) is decided through range [0,1], order consistency with "
        "the unnormalised integral and the extremes 0 and 1, not through the exact percentile arithmetic",
        "the number of eta samples K is the number of k >= 0 with k * eta_step < eta_max; for steps that are not exactly representable "
        "in float32 (0.01) one more sample is accepted (float32 arange)",
        "max-type measures: see known finding C12-F1 if listed",
    ]
    res = chk.tlc("MC_Confidence", "MC_Confidence.cfg", label="confidence_theorems", workers=16, timeout=600, heap="6g")
    for inv in res.invariant_violations:
        chk.violation("spec:" + inv, {"model": "MC_Confidence", "invariant": inv}, {"tlc": res.trace_text()}, "")
    cases, meta = [], {}
    n = 0
    grids = [(0.5, 0.0625, 1, 16), (0.75, 0.03125, 1, 32), (0.7, 0.01, 1, 100), (0.3, 0.05, 1, 20)]
    ncase = 40 if tier == "quick" else 500
    for k in range(ncase):
        rows, cols = int(rng.randint(2, 5)), int(rng.randint(3, 8))
        nd = int(rng.randint(2, 6))
        span = int([7, 9, 11, 13, 16, 20][k % 6])
        low = int([0, 3, 7, 12][(k // 2) % 4])
        costs = gen_cv(rng, rows, cols, nd, span, low)
        dmin = int(rng.randint(-3, 2))
        s = int([1, 2][k % 2])
        eta_max, eta_step, sp, sq = grids[k % 4]
        thr = float([0.9, 0.5, 1.0, 0.75][k % 4])
        tp, tq = {0.9: (9, 10), 0.5: (1, 2), 1.0: (1, 1), 0.75: (3, 4)}[thr]
        suffix = ["", ".a", ".7"][k % 3]
        prev = (["confidence_from_zzz"], rng.rand(rows, cols, 1)) if k % 2 else None
        vm = rng.choice([0, 1, 2, 4, 64], size=(rows, cols))
        base = dict(rows=rows, cols=cols, nd=nd, cv=enc_scaled(costs, 1), cmin=low, cmax=low + span, sp=sp, sq=sq, tp=tp, tq=tq, first=dmin * s, s=s)
        Kdoc = int(np.ceil(eta_max / eta_step - 1e-9))

        def fresh():
            return build.make_cv(costs, dmin=dmin, subpix=s, vm=vm, conf=prev)
        for method in ("ambiguity", "risk", "interval_bounds"):
            n += 1
            cid = f"c{n}"
            feat = {"method": method, "nd": nd, "span": span, "eta": [eta_max, eta_step], "threshold": thr, "suffix": suffix, "with_previous_band": prev is not None}
            chk.count((method, rows, cols, nd, span, eta_max, eta_step, thr, suffix, k))
            try:
                cv = fresh()
                before_cv = cv["cost_volume"].data.copy()
                csnap = conf_snapshot(cv)
                cfg = {"confidence_method": method, "indicator": suffix}
                if method in ("ambiguity", "risk"):
                    cfg.update(eta_max=eta_max, eta_step=eta_step)
                if method == "ambiguity":
                    cfg["normalization"] = False
                if method == "interval_bounds":
                    cfg["possibility_threshold"] = thr
                obj = cvc.AbstractCostVolumeConfidence(**cfg)
                dsp, cv2 = obj.confidence_prediction(xr.Dataset(), None, None, cv)
                names = list(map(str, cv2.coords["indicator"].data))
                data = cv2["confidence_measure"].data
                exp_new = {"ambiguity": ["confidence_from_ambiguity" + suffix],
                           "risk": ["confidence_from_risk_max" + suffix, "confidence_from_risk_min" + suffix],
                           "interval_bounds": ["confidence_from_interval_bounds_inf" + suffix, "confidence_from_interval_bounds_sup" + suffix]}[method]
                old = csnap[0] if csnap else []
                bands_ok = names == old + exp_new and "confidence_measure" in dsp.data_vars and list(map(str, dsp.coords["indicator"].data)) == names
                frame_ok = same_bits(before_cv, cv2["cost_volume"].data) and same_bits(np.asarray(vm, dtype=np.uint16), cv2["validity_mask"].data) \
                    and (csnap is None or same_bits(csnap[1], data[:, :, :len(old)]))
                out = {"bands_ok": bool(bands_ok), "frame_ok": bool(frame_ok)}
                K = Kdoc
                if method == "ambiguity":
                    band = data[:, :, len(old)]
                    out["count"] = enc_int(np.rint(1.0 - band.astype(np.float64)))
                    # number of eta samples actually used (structure of the sampled ambiguity of the same class)
                    _, sampled = obj.compute_ambiguity_and_sampled_ambiguity(before_cv.astype(np.float32), np.float32(0.0), np.float32(eta_max), np.float32(eta_step))
                    K = int(sampled.shape[2])
                    objn = cvc.AbstractCostVolumeConfidence(**dict(cfg, normalization=True))
                    _, cvn = objn.confidence_prediction(xr.Dataset(), None, None, fresh())
                    out["norm"] = enc_milli(cvn["confidence_measure"].data[:, :, len(old)])
                elif method == "risk":
                    _, sampled = cvc.AbstractCostVolumeConfidence(confidence_method="ambiguity").compute_ambiguity_and_sampled_ambiguity(
                        before_cv.astype(np.float32), np.float32(0.0), np.float32(eta_max), np.float32(eta_step))
                    K = int(sampled.shape[2])
                    out["rmax"] = enc_milli(data[:, :, len(old)])
                    out["rmin"] = enc_milli(data[:, :, len(old) + 1])
                else:
                    out["inf"] = enc_scaled(data[:, :, len(old)], s)
                    out["sup"] = enc_scaled(data[:, :, len(old) + 1], s)
                if K not in (Kdoc, Kdoc + (0 if sq in (16, 32) else 1)):
                    chk.violation("eta_samples", dict(method=method, eta=[eta_max, eta_step]), {"K": K, "expected": Kdoc}, f"{K} eta samples instead of {Kdoc}")
                degenerate = method == "ambiguity" and len(set(np.asarray(out["count"]).ravel().tolist())) < 2
                case = dict(base, id=cid, step="confidence", method=method, K=K, normalized=bool(method == "ambiguity" and not degenerate), out=out)
                cases.append(case)
                meta[cid] = feat
                if len(chk.samples) < 3:
                    chk.sample({"features": feat, "cost_row": case["cv"][0][0], "out": {kk: (vv[0][0] if isinstance(vv, list) else vv) for kk, vv in out.items()}})
            except Exception as exc:  # pylint: disable=broad-except
                chk.violation("total", dict(method=method, exception=type(exc).__name__), {"features": feat, "exception": repr(exc)[:300]}, f"{method} raised on {feat}")
        # interval bounds on a MAX-type volume (similarity measure): the possibility 1 - (best - c) / (cmax - cmin) is the possibility of
        # the reflected min-type volume cmax + cmin - c, which is what the specification is given
        try:
            n += 1
            cid = f"c{n}"
            cvm = build.make_cv(costs, dmin=dmin, subpix=s, vm=vm, conf=prev, type_measure="max", measure="zncc")
            objm = cvc.AbstractCostVolumeConfidence(confidence_method="interval_bounds", possibility_threshold=thr, indicator=suffix)
            _, cv2 = objm.confidence_prediction(xr.Dataset(), None, None, cvm)
            names = list(map(str, cv2.coords["indicator"].data))
            data = cv2["confidence_measure"].data
            old = [] if prev is None else list(prev[0])
            exp_new = ["confidence_from_interval_bounds_inf" + suffix, "confidence_from_interval_bounds_sup" + suffix]
            outm = {"bands_ok": bool(names == old + exp_new), "frame_ok": bool(same_bits(np.asarray(costs, dtype=np.float32), cv2["cost_volume"].data)),
                    "inf": enc_scaled(data[:, :, len(old)], s), "sup": enc_scaled(data[:, :, len(old) + 1], s)}
            reflected = (2 * low + span) - costs
            cases.append(dict(base, id=cid, step="confidence", method="interval_bounds", K=Kdoc, normalized=False, cv=enc_scaled(reflected, 1), out=outm))
            meta[cid] = {"method": "interval_bounds", "type_measure": "max", "threshold": thr, "nd": nd, "span": span}
            chk.count(("ibmax", rows, cols, nd, span, thr, k))
        except Exception as exc:  # pylint: disable=broad-except
            chk.violation("total", dict(method="interval_bounds", exception=type(exc).__name__), {"type_measure": "max", "exception": repr(exc)[:300]},
                          f"interval_bounds on a max-type volume raised: {exc!r}")
        # interval bounds WITH regularisation (quantile 1): against the same step without regularisation it can only widen
        # the interval of a pixel and never loses a bound (pixels without any cost have NaN bounds in both runs)
        try:
            ib = {"confidence_method": "interval_bounds", "possibility_threshold": thr}
            reg = dict(ib, regularization=True, ambiguity_threshold=float([0.4, 0.6, 0.95][k % 3]), ambiguity_kernel_size=int([1, 3, 5][k % 3]),
                       vertical_depth=int(k % 3), quantile_regularization=1.0)
            outs = []
            for c2 in (ib, reg):
                cvx = build.make_cv(costs, dmin=dmin, subpix=s, vm=vm)
                _, cvx = cvc.AbstractCostVolumeConfidence(confidence_method="ambiguity", eta_max=eta_max, eta_step=eta_step).confidence_prediction(xr.Dataset(), None, None, cvx)
                _, cvx = cvc.AbstractCostVolumeConfidence(**c2).confidence_prediction(xr.Dataset(), None, None, cvx)
                nm = list(map(str, cvx.coords["indicator"].data))
                outs.append((cvx["confidence_measure"].data[:, :, nm.index("confidence_from_interval_bounds_inf")],
                             cvx["confidence_measure"].data[:, :, nm.index("confidence_from_interval_bounds_sup")],
                             cvx["confidence_measure"].data[:, :, 0], cvx["validity_mask"].data.copy()))
            from vp.project import enc_rank
            enc = enc_rank(np.stack([outs[0][0], outs[0][1], outs[1][0], outs[1][1]]))
            n += 1
            cid = f"c{n}"
            cases.append({"id": cid, "step": "regularize", "rows": rows, "cols": cols, "inf0": enc[0], "sup0": enc[1], "inf1": enc[2], "sup1": enc[3],
                          "vm0": enc_int(outs[0][3]), "vm1": enc_int(outs[1][3]), "strict": False,
                          "frame_other": bool(same_bits(outs[0][2], outs[1][2]))})
            meta[cid] = {"method": "interval_bounds", "regularization": True, "threshold": thr}
            chk.count(("ibreg", rows, cols, nd, k))
        except Exception as exc:  # pylint: disable=broad-except
            chk.violation("total", dict(method="interval_bounds", exception=type(exc).__name__), {"regularization": True, "exception": repr(exc)[:300]},
                          f"interval_bounds with regularization raised: {exc!r}")
        # std_intensity on an integer image
        win = int([3, 5][k % 2])
        ir, ic = win + int(rng.randint(0, 3)), win + int(rng.randint(1, 5))
        img = rng.randint(0, 4, size=(ir, ic))
        tenths = (k % 3 == 1)
        if tenths:
            # reflectance-like radiometry (tenths, not exactly representable) with a flat patch covering whole windows: the variance
            # E[x^2] - E[x]^2 of a constant window is 0 up to rounding - the standard deviation is 0, not NaN
            ir, ic = win + 3, win + 4
            img = rng.randint(0, 4, size=(ir, ic))
            img[:win + 1, :win + 2] = 3
        left = build.make_image(img / 10.0 if tenths else img, disp=(dmin, dmin + 1))
        cvs = build.make_cv(np.zeros((ir, ic, 2), dtype=np.float32), dmin=dmin, window_size=win)
        try:
            obj = cvc.AbstractCostVolumeConfidence(confidence_method="std_intensity", indicator=suffix)
            dsp, cv2 = obj.confidence_prediction(xr.Dataset(), left, left, cvs)
            names = list(map(str, cv2.coords["indicator"].data))
            n += 1
            cid = f"c{n}"
            # (std of x / 10 is std of x divided by 10: the band of the tenths image is compared at scale 1000 with the integer image)
            cases.append({"id": cid, "step": "confidence", "method": "std_intensity", "normalized": False, "rows": ir, "cols": ic, "win": win, "s": 1, "band": 1,
                          "L": [enc_int(img)], "out": {"q": enc_scaled(cv2["confidence_measure"].data[:, :, 0], 1000 if tenths else 100, tol=0.5001),
                                                        "bands_ok": len(names) == 1 and names[0].startswith("confidence_from_") and "std" in names[0] and names[0].endswith(suffix),
                                                        "frame_ok": True}})
            meta[cid] = {"method": "std_intensity", "win": win}
            chk.count(("std", win, ir, ic, k))
        except Exception as exc:  # pylint: disable=broad-except
            chk.violation("total", dict(method="std_intensity", exception=type(exc).__name__), {"exception": repr(exc)[:300]}, "")
    verdicts = chk.tlc_cases("PipelineTrace", "PipelineTrace.cfg", cases, label="c12", chunk=25, parallel=14, heap="4g", timeout=1800)
    for cid, v in verdicts.items():
        for clause in v["failed"]:
            m = meta[cid]
            chk.violation(clause, {"clause": clause, "method": m["method"]}, {"meta": m, "detail": v["detail"]}, f"{cid}: {clause} {v['detail']} {m}")
    # ---- stacks of confidence steps in any order vs the twin pipeline without them ------------------------------------------
    rel = []
    relmeta = {}
    for k in range(12 if tier == "quick" else 150):
        measure = ["sad", "census", "ssd"][k % 3]
        win = 3 if measure == "census" else [1, 3][k % 2]
        prob = dp.gen_problem(rng, rows=win + 3, cols=win + 8, win=win, s=[1, 2][k % 2], measure=measure, disp=(-2, 1), mask_mode=["none", "both"][k % 2])
        order = list(rng.permutation(["ambiguity", "risk", "interval_bounds", "std_intensity"]))[: 1 + k % 4]
        csteps = [((f"cost_volume_confidence.{j}" if j else "cost_volume_confidence"), {"confidence_method": m}) for j, m in enumerate(order)]
        tail = [("disparity", {"disparity_method": "wta", "invalid_disparity": -9999}), ("refinement", {"refinement_method": "vfit"}),
                ("filter", {"filter_method": "median"})]
        mc = [("matching_cost", dp.mc_cfg(prob))]
        try:
            l1, _, m1 = dp.run_pipeline(*dp.make_datasets(prob), {"pipeline": {nm: dict(c) for nm, c in mc + csteps + tail}})
            l2, _, m2 = dp.run_pipeline(*dp.make_datasets(prob), {"pipeline": {nm: dict(c) for nm, c in mc + tail}})
        except Exception as exc:  # pylint: disable=broad-except
            chk.violation("total", dict(method="stack", exception=type(exc).__name__), {"order": order, "exception": repr(exc)[:300]}, "")
            continue
        names = ["disparity_map", "validity_mask", "interpolated_coeff"]
        p1, p2 = dp.products(l1), dp.products(l2)
        enc = enc_joint([p1[x] for x in names] + [p2[x] for x in names] + [m1.left_cv["cost_volume"].data.reshape(prob["rows"], -1)[:, :prob["cols"]],
                                                                           m2.left_cv["cost_volume"].data.reshape(prob["rows"], -1)[:, :prob["cols"]]])
        cid = f"s{k}"
        rel.append({"id": cid, "kind": "equal", "rows": prob["rows"], "cols": prob["cols"], "names": names + ["cost_volume_slice"],
                    "A": enc[:3] + [enc[6]], "B": enc[3:6] + [enc[7]]})
        relmeta[cid] = {"order": order}
        chk.count(("stack", tuple(order), measure, k))
        exp_bands = []
        for j, mth in enumerate(order):
            sfx = f".{j}" if j else ""
            exp_bands += {"ambiguity": ["confidence_from_ambiguity" + sfx], "risk": ["confidence_from_risk_max" + sfx, "confidence_from_risk_min" + sfx],
                          "interval_bounds": ["confidence_from_interval_bounds_inf" + sfx, "confidence_from_interval_bounds_sup" + sfx],
                          "std_intensity": None}[mth] or [None]
        got = list(map(str, l1.coords["indicator"].data)) if "confidence_measure" in l1.data_vars else []
        ok = len(got) == len(exp_bands) and all(e is None or e == g for e, g in zip(exp_bands, got))
        if not ok:
            chk.violation("bands_appended_and_named", {"clause": "bands_appended_and_named", "method": "stack"}, {"order": order, "got": got, "expected": exp_bands},
                          f"bands of the stack {order}: {got}")
    verdicts = chk.tlc_cases("RelTrace", "RelTrace.cfg", rel, label="c12rel", chunk=40, parallel=8)
    for cid, v in verdicts.items():
        for clause in v["failed"]:
            chk.violation("twin_without_confidence:" + clause, {"clause": "twin_without_confidence", "array": clause}, {"meta": relmeta[cid], "detail": v["detail"]},
                          f"{cid}: {clause} differs from the pipeline without confidence steps {relmeta[cid]}")
    chk.rule = ("integer cost volumes (2-5 samples, spans 7..20, NaN holes, all-NaN pixels, ties) x method x eta grid (dyadic and default) x "
                "threshold x suffix x with/without a previous band; stacks of 1-4 confidence steps in random order vs the twin pipeline; "
                "distinct = distinct parameter tuples")
    return chk.finish()
