"""C13 - results are local: a pixel depends on its neighbourhood, not on its position.

(E) TLC, MC_Relations: the cone predicate ConeInside is monotone (a crop containing a larger crop's cone interior ...) and
    MC_MatchingCost's theorems give locality of the cost itself (a cost reads the two windows only).
(B3, relational) a whole-image run and runs on crops of it (every crop-offset parity in rows and columns, crop datasets carrying
    the coordinates of the crop exactly as a ROI read does) on real machines, local pipelines only (matching cost, cbca,
    winner-takes-all, refinement, median / bilateral filter, cross-checking); TLC selects the pixels whose dependency cone
    (Relations!ConeInside: summed radii, columns extended by the interval, twice with cross-checking) lies inside the crop and
    demands bit-identical disparity and flags.  Vertical flip of both images must flip the outputs.
"""
from __future__ import annotations

import numpy as np

from vp import build
from vp import dataplane as dp
from vp.core import Check
from vp.project import enc_joint


def radii(steps, rows, cols):
    rr = rc = 0
    m = 1
    for nm, c in steps:
        k = nm.split(".")[0]
        if k == "matching_cost":
            o = (c["window_size"] - 1) // 2
            rr += o
            rc += o
        elif k == "aggregation":
            d = c.get("cbca_distance", 5)
            rr += d + 1
            rc += d + 1
        elif k == "filter":
            if c["filter_method"] == "median":
                w = c.get("filter_size", 3)
            else:
                w = int(3 * c["sigma_space"] + 1)
            rr += w // 2 + (1 if w % 2 == 0 else 0)
            rc += w // 2 + (1 if w % 2 == 0 else 0)
        elif k == "validation":
            m = 2
    return rr, rc, m


def gen_pipe(rng, measure, win, s):
    steps = [("matching_cost", {"matching_cost_method": measure, "window_size": win, "subpix": s})]
    if rng.rand() < 0.3:
        steps.append(("aggregation", {"aggregation_method": "cbca", "cbca_distance": int(rng.randint(1, 3)), "cbca_intensity": float([5.0, 30.0][rng.randint(2)])}))
    steps.append(("disparity", {"disparity_method": "wta", "invalid_disparity": [-9999, "NaN"][rng.randint(2)]}))
    tail = rng.randint(6)
    if tail in (1, 3, 5):
        steps.append(("refinement", {"refinement_method": ["vfit", "quadratic"][rng.randint(2)]}))
    if tail in (2, 3):
        steps.append(("filter", {"filter_method": "median", "filter_size": int([3, 5][rng.randint(2)])}))
    if tail == 4:
        steps.append(("filter", {"filter_method": "bilateral", "sigma_space": float([0.4, 1.0, 0.7, 1.4][rng.randint(4)]), "sigma_color": 2.0}))
    if rng.rand() < 0.45:
        steps.append(("validation", {"validation_method": "cross_checking_accurate", "cross_checking_threshold": float([0.0, 1.0][rng.randint(2)])}))
    return steps


def crop_ds(L, R, mL, mR, disp, r0, r1, c0, c1):
    left = build.make_image(L[r0:r1, c0:c1], mask=None if mL is None else mL[r0:r1, c0:c1], disp=disp, row0=r0, col0=c0)
    right = build.make_image(R[r0:r1, c0:c1], mask=None if mR is None else mR[r0:r1, c0:c1], row0=r0, col0=c0)
    return left, right


def run(tier):
    chk = Check("C13", tier)
    rng = np.random.RandomState(chk.seed + 1313)
    chk.assumptions += [
        "the cone used is conservative: row radius = sum of (window offset, cbca_distance + 1, filter half-width (+1 for even bilateral "
        "windows)); column radius = the same plus max |disparity|; both doubled when the pipeline cross-checks",
        "integer radiometry; crops keep at least the bilateral window in each dimension so that its width min(rows, cols, int(3 sigma + 1)) "
        "is the same for the crop and the whole image",
    ]
    res = chk.tlc("MC_Relations", "MC_Relations.cfg", label="cone_theorems", workers=8, timeout=600)
    for inv in res.invariant_violations:
        chk.violation("spec:" + inv, {"model": "MC_Relations", "invariant": inv}, {"tlc": res.trace_text()}, "")
    cases, meta = [], {}
    nprob = 16 if tier == "quick" else 160
    nbig = 2 if tier == "quick" else 8
    for k in range(nprob + nbig + 1):
        measure = ["sad", "census", "ssd", "zncc"][k % 4]
        win = 3 if measure in ("census", "zncc") else [1, 3][k % 2]
        s = [1, 2, 4][k % 3]
        R_, C_ = int(rng.randint(12, 21)), int(rng.randint(30, 61))
        big = nprob <= k < nprob + nbig
        half = k == nprob + nbig
        if half:
            # a scene whose true disparity is half a pixel (the left image is the mean of two neighbouring right columns), matched at
            # subpix 2 and cross-checked: disparities are exactly x.5, so any rounding of an ABSOLUTE column position shows at odd starts
            measure, win, s = "sad", 1, 2
        if big:
            # images larger than the internal processing blocks (50 rows / columns for the bilateral filter, 100 for the disparity
            # and median steps): a pixel's result must not depend on which block it falls in
            measure, win, s = "sad", 1, 1
            R_, C_ = int(rng.randint(103, 112)), int(rng.randint(103, 118))
        a = int(rng.randint(-3, 1))
        b = a + int(rng.randint(1, 4))
        vmax = int([6, 256, 4096, 65536][(k // 4) % 4])      # 3-bit ... 16-bit integer radiometry
        L = rng.randint(0, vmax, size=(R_, C_)).astype(np.float32)
        Rt = np.roll(L, int(rng.randint(a, b + 1)), axis=1)
        Rt = np.where(rng.rand(R_, C_) < 0.3, rng.randint(0, vmax, size=(R_, C_)), Rt).astype(np.float32)
        if k % 8 == 7 or k % 8 == 2:
            # periodic texture (period 2 columns) with 16-bit radiometry: the costs at d and d +- 2 are mathematically EQUAL, so the winner
            # is decided by a tie rule - any position-dependent rounding noise in the cost flips it
            base = rng.randint(0, 65536, size=(R_, 2)).astype(np.float32)
            L = np.tile(base, (1, C_ // 2 + 1))[:, :C_].copy()
            Rt = np.roll(L, int(rng.randint(a, b + 1)), axis=1)
            b = max(b, a + 3)
            vmax = 65536
        if half:
            a, b = -1, 1
            Rt = (2 * rng.randint(0, 100, size=(R_, C_))).astype(np.float32)
            L = ((Rt + np.roll(Rt, -1, axis=1)) / 2).astype(np.float32)      # the left image samples the right one half a pixel further
            vmax = 256
        if k % 3 == 0 and not half:
            mL = (rng.rand(R_, C_) < 0.03) * rng.choice([1, 2], size=(R_, C_))
            mR = (rng.rand(R_, C_) < 0.03) * rng.choice([1, 2], size=(R_, C_))
        else:
            mL = mR = None
        steps = gen_pipe(rng, measure, win, s)
        if half:
            steps = [("matching_cost", {"matching_cost_method": "sad", "window_size": 1, "subpix": 2}),
                     ("disparity", {"disparity_method": "wta", "invalid_disparity": -9999}),
                     ("validation", {"validation_method": "cross_checking_accurate", "cross_checking_threshold": 0.0})]
        if big:
            steps = [("matching_cost", {"matching_cost_method": "sad", "window_size": 1, "subpix": 1}),
                     ("disparity", {"disparity_method": "wta", "invalid_disparity": -9999}),
                     ("filter", [{"filter_method": "median", "filter_size": 3}, {"filter_method": "bilateral", "sigma_space": 0.7, "sigma_color": 2.0}][k % 2])]
        cfg = lambda: {"pipeline": {nm: dict(c) for nm, c in steps}}   # noqa: E731
        rr, rc, m = radii(steps, R_, C_)
        ext = max(abs(a), abs(b))
        feat = {"measure": measure, "win": win, "subpix": s, "pipeline": [nm for nm, _ in steps], "interval": [a, b], "shape": [R_, C_], "radiometry_bits": int(np.log2(vmax)),
                "cross_check": m == 2, "refinement": any(nm.startswith("refinement") for nm, _ in steps), "larger_than_blocks": big}
        try:
            lw, _, _ = dp.run_pipeline(*crop_ds(L, Rt, mL, mR, (a, b), 0, R_, 0, C_), cfg())
        except Exception as exc:  # pylint: disable=broad-except
            chk.violation("total", dict(measure=measure, exception=type(exc).__name__), {"features": feat, "exception": repr(exc)[:300]}, "")
            continue
        W = dp.products(lw)
        names = ["disparity_map", "validity_mask"]
        # crops: every parity of the row / column start, ends both inside and on the image border
        offs = [(0, 0), (1, 0), (0, 1), (1, 1), (2, 3), (3, 2), (0, 7), (1, 8)] if tier == "quick" else \
            [(i, j) for i in (0, 1, 2, 3) for j in (0, 1, 2, 3, 7, 8)]
        if big:
            offs = [(7, 13), (51, 0), (0, 49)]
        if half:
            offs = [(0, 1), (1, 1), (0, 3), (2, 0), (1, 5)]
        for (r0, c0) in offs:
            r1 = R_ if (r0 + c0) % 2 == 0 else R_ - int(rng.randint(0, 3))
            c1 = C_ if (r0 + c0) % 3 == 0 else C_ - int(rng.randint(0, 6))
            if r1 - r0 < 2 * m * rr + 3 or c1 - c0 < 2 * m * (rc + ext) + 3:
                continue
            chk.count(("crop", measure, win, s, tuple(feat["pipeline"]), r0, c0, r1, c1, k))
            try:
                lc, _, _ = dp.run_pipeline(*crop_ds(L, Rt, mL, mR, (a, b), r0, r1, c0, c1), cfg())
            except Exception as exc:  # pylint: disable=broad-except
                chk.violation("total", dict(measure=measure, exception=type(exc).__name__), {"features": feat, "crop": [r0, r1, c0, c1], "exception": repr(exc)[:300]}, "")
                continue
            K = dp.products(lc)
            enc = enc_joint([W[x] for x in names] + [K[x] for x in names])
            cid = f"c{k}_{r0}_{c0}"
            cases.append({"id": cid, "kind": "crop", "names": names, "R": R_, "C": C_, "rows": r1 - r0, "cols": c1 - c0, "r0": r0, "c0": c0,
                          "rr": rr, "rc": rc, "ext": ext, "m": m, "A": enc[:2], "B": enc[2:]})
            meta[cid] = dict(feat, relation="crop", crop=[r0, r1, c0, c1], col_parity=c0 % 2)
        # vertical flip of both images (and masks); the statement's premise: all windows odd-sized
        even_window = any(c.get("filter_method") == "bilateral" and int(3 * c["sigma_space"] + 1) % 2 == 0 for _, c in steps)
        if even_window:
            continue
        try:
            lf, _, _ = dp.run_pipeline(*crop_ds(L[::-1].copy(), Rt[::-1].copy(), None if mL is None else mL[::-1].copy(),
                                                None if mR is None else mR[::-1].copy(), (a, b), 0, R_, 0, C_), cfg())
            F = dp.products(lf)
            enc = enc_joint([W[x] for x in names] + [F[x] for x in names])
            cid = f"f{k}"
            cases.append({"id": cid, "kind": "flip", "names": names, "rows": R_, "cols": C_, "A": enc[:2], "B": enc[2:]})
            meta[cid] = dict(feat, relation="flip")
            chk.count(("flip", measure, win, s, tuple(feat["pipeline"]), k))
        except Exception as exc:  # pylint: disable=broad-except
            chk.violation("total", dict(measure=measure, exception=type(exc).__name__), {"features": feat, "exception": repr(exc)[:300]}, "")
        if len(chk.samples) < 2:
            chk.sample({"features": feat, "radii": [rr, rc, ext, m]})
    verdicts = chk.tlc_cases("RelTrace", "RelTrace.cfg", cases, label="c13", chunk=12, parallel=14, heap="4g", timeout=1800)
    compared = 0
    for cid, v in verdicts.items():
        compared += v.get("compared", 0)
        mm = meta[cid]
        for clause in v["failed"]:
            chk.violation(mm["relation"] + ":" + clause,
                          {"relation": mm["relation"], "array": clause, "cross_check": mm["cross_check"],
                           "measure": mm["measure"], "cbca": "aggregation" in mm["pipeline"], "radiometry_bits": mm["radiometry_bits"],
                           "half_pixel_disparities": bool(mm["subpix"] > 1 or mm["refinement"]), "odd_column_offset": bool(mm.get("col_parity", 0))},
                          {"meta": mm, "detail": v["detail"]}, f"{cid}: {clause} {v['detail']} {mm}")
    chk.extra["cone_interior_pixels_compared"] = compared
    if compared == 0 and not chk.violations:
        raise __import__("vp.core", fromlist=["x"]).MachineryFailure("no cone-interior pixel was compared")
    chk.rule = ("whole-image runs (12-20 x 30-60, integer radiometry, optional masks) of random local pipelines vs runs on crops at every "
                "row/column start parity (and ends on/inside the border), plus vertical flips; distinct = distinct (problem, pipeline, crop)")
    return chk.finish()
