"""C14 - occlusion/mismatch filling touches only flagged pixels, fills from valid ones.

(E) TLC, MC_Interpolation: every 1x4 layout over {valid, invalid, occluded, mismatched} x disparities {0, 8, 16}: frame
    (only flagged pixels change), fills come from valid pixels (hence are enclosed by the valid range), a flagged pixel
    without valid pixel in sight keeps its flags, never both bits.
(B3) the real AbstractInterpolation.interpolated_disparity (mc-cnn and sgm) on every layout of small maps and on random
    larger ones (regions and whole rows without valid pixel, information bits on flagged pixels), each of the two passes
    recorded separately (the static pass functions are wrapped from outside) and decided pixel by pixel by TLC; border
    pixels = {0} after the step.
"""
from __future__ import annotations

import itertools

import numpy as np

from vp import build
from vp.core import Check
from vp.project import enc_int, enc_scaled

PASSES = {"mc-cnn": [("interpolate_occlusion_mc_cnn", "mc_cnn_occlusion"), ("interpolate_mismatch_mc_cnn", "mc_cnn_mismatch")],
          "sgm": [("interpolate_mismatch_sgm", "sgm_mismatch"), ("interpolate_occlusion_sgm", "sgm_occlusion")]}
KIND_FLAG = {"v": 0, "i": 64, "n": 1, "o": 256, "m": 512}


def run_interp(method, disp, vm, win=1):
    """runs the real step with the two pass functions wrapped; returns [(pass, before, after)], final dataset"""
    from pandora import validation
    interp = validation.AbstractInterpolation(interpolated_disparity=method)
    cls = type(interp)
    rec = []
    undo = []
    for fname, pname in PASSES[method]:
        orig = cls.__dict__[fname]
        fn = orig.__func__ if isinstance(orig, staticmethod) else orig

        def mk(fn=fn, pname=pname):
            def wrapper(d, v):
                bd, bv = d.copy(), v.copy()
                od, ov = fn(d, v)
                rec.append((pname, bd, bv, np.array(od).copy(), np.array(ov).copy()))
                return od, ov
            return staticmethod(wrapper)
        undo.append((fname, orig))
        setattr(cls, fname, mk())
    try:
        ds = build.make_disp(disp, vm=vm, window_size=win)
        interp.interpolated_disparity(ds)
    finally:
        for fname, orig in undo:
            setattr(cls, fname, orig)
    return rec, ds


def layouts(tier, rng):
    out = []
    # every layout of a 1x4 row over valid/invalid/occluded/mismatched
    for lay in itertools.product("viom", repeat=4):
        out.append((1, 4, lay))
    shapes = [(2, 3), (3, 3), (1, 6), (2, 5), (4, 4), (3, 6)] + ([] if tier == "quick" else [(6, 8), (5, 9), (8, 3)])
    n = 140 if tier == "quick" else 3000
    for k in range(n):
        rows, cols = shapes[k % len(shapes)]
        pv = [0.5, 0.25, 0.1, 0.0][k % 4]          # share of valid pixels (0: no valid pixel at all)
        probs = [pv, (1 - pv) * 0.2, (1 - pv) * 0.1, (1 - pv) * 0.35, (1 - pv) * 0.35]
        lay = rng.choice(list("vinom"), size=rows * cols, p=probs)
        out.append((rows, cols, tuple(lay)))
    return out


def run(tier):
    chk = Check("C14", tier)
    rng = np.random.RandomState(chk.seed + 1414)
    chk.assumptions += [
        "disparities are quarter values (exact at scale 8, so that the median of an even number of values is exact)",
        "sgm occlusion filling: on a tie of |d| with opposite signs either value is accepted; with a single valid neighbour that one",
        "a flagged pixel that already carries bit 4 or 5 from an earlier filling keeps it (flags are sets)",
    ]
    res = chk.tlc("MC_Interpolation", "MC_Interpolation.cfg", label="fill_theorems", workers=16, timeout=600, heap="6g")
    for inv in res.invariant_violations:
        chk.violation("spec:" + inv, {"model": "MC_Interpolation", "invariant": inv}, {"tlc": res.trace_text()}, "")
    cases, meta = [], {}
    n = 0
    for (rows, cols, lay) in layouts(tier, rng):
        lay_arr = np.array(lay).reshape(rows, cols)
        vm = np.vectorize(KIND_FLAG.get)(lay_arr).astype(int)
        info = rng.choice([0, 0, 0, 4, 8, 12, 16, 32], size=(rows, cols))     # information bits (2, 3, 4, 5)
        vm = vm | info
        disp = (rng.randint(-16, 17, size=(rows, cols)) / 4.0).astype(np.float32)
        nvalid = int(((vm & 0b1111000011) == 0).sum())
        for method in ("mc-cnn", "sgm"):
            n += 1
            feat = {"method": method, "rows": rows, "cols": cols, "valid_pixels": nvalid}
            chk.count((method, rows, cols, lay, n))
            try:
                rec, ds = run_interp(method, disp, vm)
            except Exception as exc:  # pylint: disable=broad-except
                chk.violation("total", dict(method=method, exception=type(exc).__name__), {"features": feat, "exception": repr(exc)[:300]},
                              f"interpolated_disparity raised on {feat}")
                continue
            for pname, bd, bv, ad, av in rec:
                cid = f"i{n}{pname}"
                cases.append({"id": cid, "step": "fill", "pass": pname, "rows": rows, "cols": cols,
                              "before": {"d": enc_scaled(bd, 8), "vm": enc_int(bv)}, "after": {"d": enc_scaled(ad, 8), "vm": enc_int(av)}})
                meta[cid] = dict(feat, **{"pass": pname, "layout": "".join(lay)})
            if len(chk.samples) < 4 and rows == 1:
                chk.sample({"features": feat, "layout": "".join(lay), "disp": disp.tolist(), "vm": vm.tolist(),
                            "after_disp": np.asarray(ds["disparity_map"].data).tolist(), "after_vm": np.asarray(ds["validity_mask"].data).tolist()})
    # border pixels = {0} after the step (window 3): the map comes from a cross-check, whose border is already {0}
    for k in range(10 if tier == "quick" else 100):
        rows, cols = 4 + k % 3, 5 + k % 4
        vm = rng.choice([0, 0, 256, 512, 64], size=(rows, cols))
        vm[0, :] = vm[-1, :] = 1
        vm[:, 0] = vm[:, -1] = 1
        disp = (rng.randint(-8, 9, size=(rows, cols)) / 4.0).astype(np.float32)
        for method in ("mc-cnn", "sgm"):
            try:
                _, ds = run_interp(method, disp, vm, win=3)
            except Exception as exc:  # pylint: disable=broad-except
                chk.violation("total", dict(method=method, exception=type(exc).__name__), {"exception": repr(exc)[:300]}, "")
                continue
            out = np.asarray(ds["validity_mask"].data)
            b = np.ones((rows, cols), bool)
            b[1:-1, 1:-1] = False
            chk.count(("border", method, k))
            if not np.all(out[b] == 1):
                chk.violation("border_bit0_only", {"method": method}, {"vm": out.tolist()}, "border pixels are not {0} after filling")
    verdicts = chk.tlc_cases("PipelineTrace", "PipelineTrace.cfg", cases, label="c14", chunk=120, parallel=12)
    for cid, v in verdicts.items():
        for clause in v["failed"]:
            m = meta[cid]
            chk.violation(clause, {"clause": clause, "pass": m["pass"], "no_valid_pixel_in_map": m["valid_pixels"] == 0},
                          {"meta": m, "detail": v["detail"]}, f"{cid}: {clause} {v['detail']} {m}")
    chk.rule = ("every layout of a 1x4 row over {valid, invalid, occluded, mismatched} and random layouts of maps up to 4x4 / 3x6 (8x6 "
                "thorough) with 0-50 % valid pixels and information bits, both methods, each of the two passes a separate case; "
                "distinct = distinct (method, layout)")
    return chk.finish()
