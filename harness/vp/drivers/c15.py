"""C15 - a multiscale step really processes num_scales scales, coarse to fine.

(E) TLC: MC_Machine (RunsAsWritten over pipelines with a multiscale step and 2-3 scales: the steps before it once per scale, coarse to
    fine, the steps after it once at full resolution, both sides with validation) and MC_Multiscale (range theorems on 3x3 coarse maps).
(B3) real pandora.run on 16x20 ... 33x47 images (mono / multiband, with / without masks), num_scales 2-3, scale_factor 2-3, legal
    pipelines around the multiscale step, traced from outside: TLC (MachineTrace) validates every step execution against the
    specification's actions with the documented number of scales, the pyramid shape seen by each execution, the interval searched at
    the coarsest level, the final shapes and the deep equality of the input datasets before / after.
(B3) direct drive of the real FixedZoomPyramid.disparity_range on random coarse maps: every finer-level pixel gets
    [min - marge, max + marge] of the valid disparities in the window around a coarse pixel at most one pixel from its geometric
    parent, or the whole level interval when that pixel is invalid or on the border (Multiscale.tla).
"""
from __future__ import annotations

import copy

import numpy as np

from vp import build
from vp.core import Check
from vp.extract import write_tables
from vp.project import enc_int, enc_scaled, same_bits
from vp.tracer import MachineTracer, project_machine


def deep_equal(a, b):
    if set(a.data_vars) != set(b.data_vars) or set(a.coords) != set(b.coords):
        return False
    for v in list(a.data_vars) + list(a.coords):
        x, y = np.asarray(a[v].data), np.asarray(b[v].data)
        if x.dtype != y.dtype or x.shape != y.shape:
            return False
        if x.dtype.kind == "f":
            if not np.array_equal(x, y, equal_nan=True):
                return False
        elif not np.array_equal(x, y):
            return False
    ka = {k: str(v) for k, v in a.attrs.items()}
    kb = {k: str(v) for k, v in b.attrs.items()}
    return ka == kb


def run(tier):
    import pandora
    from pandora.check_configuration import check_pipeline_section
    from pandora.state_machine import PandoraMachine
    from pandora import multiscale
    chk = Check("C15", tier)
    build.register_stubs()
    rng = np.random.RandomState(chk.seed + 1515)
    tables = write_tables(chk.work / "MC_Tables.tla")
    chk.assumptions += ["pixel values of the Gaussian pyramid are not part of the property and are not compared (shapes, intervals, scales are)",
                        "pyramid level shapes: one ceiling division by scale_factor per level",
                        "the finer-level range of a pixel may come from a coarse pixel one step away from its geometric parent (nearest-neighbour upsampling)"]
    res = chk.tlc("MC_Machine", "MC_Machine.cfg", label="machine_scales", include=[tables], workers=16, timeout=1500, heap="8g")
    for inv in res.invariant_violations:
        chk.violation("model:" + inv, {"model": "MC_Machine", "invariant": inv}, {"tlc": res.trace_text()}, "")
    res = chk.tlc("MC_Multiscale", "MC_Multiscale.cfg", label="range_theorems", workers=8, timeout=600)
    for inv in res.invariant_violations:
        chk.violation("spec:" + inv, {"model": "MC_Multiscale", "invariant": inv}, {"tlc": res.trace_text()}, "")
    # ---- real runs --------------------------------------------------------------------------------------------------------------
    traces, tmeta = [], {}
    nrun = 16 if tier == "quick" else 160
    for k in range(nrun):
        ns, sf = int([2, 3, 2, 3][k % 4]), int([2, 2, 3, 2][k % 4])
        if ns == 3 and sf == 3:
            sf = 2
        rows, cols = int(rng.randint(16, 34)), int(rng.randint(20, 48))
        nb = 1 if k % 3 else 3
        umin = -int(rng.choice([4, 6, 8, 12])) if k % 2 else -int(rng.randint(3, 10))
        umax = int(rng.choice([4, 8, 12])) if k % 2 else int(rng.randint(2, 9))
        L = rng.randint(0, 255, size=(nb, rows, cols)).astype(np.float32)
        Rm = np.roll(L, 2, axis=2)
        mask = (rng.rand(rows, cols) < 0.03).astype(np.int16) * rng.choice([1, 2], size=(rows, cols)) if k % 2 == 0 else None
        bands = ["r", "g", "b"] if nb == 3 else None
        # the images may code their masks with their own convention (valid_pixels / no_data_mask attributes)
        from vp import dataplane as dp
        conv = dp.CONVENTIONS[(k // 2) % len(dp.CONVENTIONS)] if mask is not None else None
        mk = dp.code_mask(mask, conv) if mask is not None else None
        at = {"valid_pixels": conv[0], "no_data_mask": conv[1]} if conv else None
        left = build.make_image(L if nb == 3 else L[0], mask=mk, disp=(umin, umax), bands=bands, attrs=at)
        right = build.make_image(Rm if nb == 3 else Rm[0], mask=mk, bands=bands, attrs=at)
        kinds = ["matching_cost"] + (["cost_volume_confidence"] if k % 3 == 0 else []) + ["disparity"] + (["refinement"] if k % 2 else []) + \
                (["filter"] if k % 4 == 1 else []) + ["multiscale"] + (["filter"] if k % 4 == 2 else []) + (["validation"] if k % 5 == 0 else []) + \
                (["refinement"] if k % 4 == 3 and k % 2 == 0 else [])
        overrides = {}
        for i, kd in enumerate(kinds):
            if kd == "matching_cost":
                overrides[i] = {"matching_cost_method": ["sad", "census", "zncc"][k % 3], "window_size": 3, "subpix": 1}
                if nb == 3:
                    overrides[i]["band"] = "g"
            if kd == "multiscale":
                overrides[i] = {"num_scales": ns, "scale_factor": sf, "marge": int(k % 3)}
        cfg, names = build.pipeline_cfg(kinds, overrides=overrides, suffix_at=((kinds.index("multiscale"),) if k % 4 == 3 else ()))
        idx_of = {n: i + 1 for i, (n, _, _) in enumerate(names)}
        metaL = build.make_metadata(rows, cols, bands=bands, disp=(umin, umax))
        metaR = build.make_metadata(rows, cols, bands=bands, disp=None)
        feat = {"num_scales": ns, "scale_factor": sf, "shape": [rows, cols], "bands": nb, "mask": mask is not None, "pipeline": [n for n, _, _ in names],
                "interval": [umin, umax]}
        chk.count(("run", ns, sf, rows, cols, nb, tuple(feat["pipeline"]), umin, umax))
        m = PandoraMachine()
        try:
            checked = check_pipeline_section(cfg, metaL, metaR, m)
        except Exception as exc:  # pylint: disable=broad-except
            chk.violation("check_rejected", {"exception": type(exc).__name__}, {"features": feat, "exception": repr(exc)[:300]}, f"legal multiscale pipeline rejected: {feat}")
            continue
        l0, r0 = left.copy(deep=True), right.copy(deep=True)
        l0.attrs, r0.attrs = copy.deepcopy(left.attrs), copy.deepcopy(right.attrs)
        with MachineTracer(m) as tr:
            try:
                outl, outr = pandora.run(m, left, right, checked)
                end = {"ev": "RunEnd", "outcome": "ran", "err": "none"}
            except Exception as exc:  # pylint: disable=broad-except
                outl = outr = None
                end = {"ev": "RunEnd", "outcome": "raised", "err": "other", "exc": repr(exc)[:300]}
            evs = []
            for e in tr.events:
                if e["ev"] != "RunCb":
                    continue
                x = {"ev": "RunCb", "idx": idx_of.get(e["name"], 0), "kind": e["kind"], "side": e["side"],
                     "scale": int(e["cscale"]) if e["cscale"] is not None else -1, "rows": e["rows"], "cols": e["cols"]}
                if "dlo" in e:
                    x["dlo"], x["dhi"] = int(round(e["dlo"])), int(round(e["dhi"]))
                if "blo" in e and float(e["blo"]).is_integer() and float(e["bhi"]).is_integer():
                    x["blo"], x["bhi"] = int(e["blo"]), int(e["bhi"])
                evs.append(x)
        final_ok = outl is not None and outl["disparity_map"].shape == (rows, cols) and \
            (("disparity_map" not in outr.data_vars) or outr["disparity_map"].shape == (rows, cols))
        inputs_ok = deep_equal(left, l0) and deep_equal(right, r0)
        op = {"op": "run", "pipeline": [{"kind": kd, "sfx": sx, "ok": True} for _, kd, sx in names], "ns": int(m.num_scales), "dns": ns, "sf": sf,
              "base_rows": rows, "base_cols": cols, "umin": umin, "umax": umax, "final_shape_ok": bool(final_ok), "inputs_ok": bool(inputs_ok),
              "events": evs + [{k2: v2 for k2, v2 in end.items() if k2 != "exc"}], "post": {"ms": m.state, "nev": len(m.events)}}
        tid = f"ms{k}"
        traces.append({"id": tid, "ops": [op]})
        tmeta[tid] = dict(feat, end=end)
        if len(chk.samples) < 2:
            chk.sample({"features": feat, "events": evs[:8]})
    verdicts = chk.tlc_cases("MachineTrace", "MachineTrace.cfg", traces, label="c15trace", chunk=40, include=[tables])
    for tid, v in verdicts.items():
        for failed in v["failed"]:
            mm = tmeta[tid]
            clause = failed[1]
            ev = None
            if failed[2]:
                ev = next(t for t in traces if t["id"] == tid)["ops"][0]["events"][failed[2] - 1]
            chk.violation(clause, {"clause": clause, "multiband": mm["bands"] > 1, "mask": mm["mask"], "raised": mm["end"]["outcome"] == "raised"},
                          {"meta": mm, "event": ev}, f"{tid}: {clause} at event {failed[2]} {ev} {mm}")
    # ---- direct drive of disparity_range -----------------------------------------------------------------------------------------
    cases, meta = [], {}
    for k in range(40 if tier == "quick" else 500):
        rows, cols = int(rng.randint(3, 8)), int(rng.randint(3, 9))
        sf = int([2, 3][k % 2])
        marge = int(k % 3)
        win = int([1, 3][k % 2]) if k % 4 else 3
        gmin, gmax = -int(rng.randint(2, 6)), int(rng.randint(1, 6))
        d = (rng.randint(4 * gmin, 4 * gmax + 1, size=(rows, cols)) / 4.0).astype(np.float32)
        vm = np.where(rng.rand(rows, cols) < 0.25, rng.choice([1, 2, 64, 256, 512], size=(rows, cols)), rng.choice([0, 4, 8], size=(rows, cols)))
        bad = (vm & 0b1111000011) != 0
        ds = build.make_disp(d, vm=vm, window_size=win, dmin=gmin, dmax=gmax)
        metaL = build.make_metadata(rows, cols, disp=(gmin, gmax))
        before = ds["disparity_map"].data.copy()
        chk.count(("range", rows, cols, sf, marge, win, gmin, gmax, k))
        try:
            ms = multiscale.AbstractMultiscale(metaL, metaL, multiscale_method="fixed_zoom_pyramid", num_scales=2, scale_factor=sf, marge=marge)
            omin, omax = ms.disparity_range(ds, np.full((rows, cols), float(gmin)), np.full((rows, cols), float(gmax)))
        except Exception as exc:  # pylint: disable=broad-except
            chk.violation("total", {"exception": type(exc).__name__}, {"exception": repr(exc)[:300]}, "disparity_range raised")
            continue
        cid = f"dr{k}"
        cases.append({"id": cid, "step": "disparity_range", "rows": rows, "cols": cols, "sf": sf, "marge": marge, "win": win, "gmin": gmin, "gmax": gmax, "k": 4,
                      "d": enc_scaled(np.where(bad, 0, d), 4), "bad": bad.tolist(),
                      "out": {"omin": enc_scaled(omin, 4), "omax": enc_scaled(omax, 4), "frame_ok": same_bits(before, ds["disparity_map"].data)}})
        meta[cid] = {"sf": sf, "marge": marge, "win": win, "shape": [rows, cols]}
    verdicts = chk.tlc_cases("RuleTrace", "RuleTrace.cfg", cases, label="c15range", chunk=60, parallel=8)
    for cid, v in verdicts.items():
        for clause in v["failed"]:
            chk.violation(clause, {"clause": clause, "win": meta[cid]["win"]}, {"meta": meta[cid], "detail": v["detail"]}, f"{cid}: {clause} {v['detail']} {meta[cid]}")
    chk.rule = ("real multi-scale runs (2-3 scales, factor 2-3, 16-33 x 20-47 images, mono/3-band, masks, pipelines around the multiscale step incl. "
                "validation and suffixed multiscale step) traced and validated; random coarse maps for disparity_range; distinct = distinct tuples")
    return chk.finish()
