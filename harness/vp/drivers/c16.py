"""C16 - image datasets faithfully encode input rasters, masks, nodata and ROI.

(E + B2) TLC (MC_Input, mode roi) enumerates EVERY ROI on a 5 x 4 raster (first/last column in -3..7, rows in -3..6, margins in
    {0,2}^4 quick / {0,1,3}^4 thorough), proves the window theorems (inside the image, contains the clipped ROI, refused iff
    entirely outside) and emits each case; every case is replayed into the real get_window, and a sample into the real
    create_dataset_from_inputs with that ROI, compared (relation Crop of Relations.tla, decided by TLC) with the crop of the full
    read, coordinates included.
(B3) random rasters written by the harness (1-3 bands, uint8 / int16 / float32, nodata in {-9999, 0, 255, NaN, +inf, -inf}, NaN and
    +-inf samples, mask rasters with values in {-1, 0, 1, 2, 255}, integer or grid disparities, classification / segmentation)
    are read by the real create_dataset_from_inputs; TLC decides samples, mask classes, presence of the mask variable, attributes,
    band names, disparity, classif / segm (InputTrace clauses of RuleTrace.tla).
"""
from __future__ import annotations

import shutil

import numpy as np

from vp import build
from vp.core import Check, MachineryFailure, WORK
from vp.project import NAN, enc_int, enc_joint

PINF, NINF = 1000000001, -1000000001


SCALE = 1000


def enc_samples(a):
    a = np.asarray(a, dtype=np.float64) * SCALE
    out = np.where(np.isnan(a), NAN, np.where(np.isposinf(a), PINF, np.where(np.isneginf(a), NINF, np.rint(np.nan_to_num(a, posinf=0, neginf=0)))))
    return out.astype(np.int64).tolist()


def enc_one(x):
    return enc_samples(np.array([[x]]))[0][0]


def run(tier):
    from pandora.img_tools import create_dataset_from_inputs, get_window
    chk = Check("C16", tier)
    rng = np.random.RandomState(chk.seed + 1616)
    tmp = WORK / f"c16files-{chk.seed}-{tier}"
    if tmp.exists():
        shutil.rmtree(tmp)
    tmp.mkdir(parents=True)
    chk.assumptions += ["rasterio / GDAL decoding is trusted: the harness writes GeoTIFFs with rasterio and Pandora reads them back with rasterio",
                        "integer-valued samples (exactly representable in float32), plus NaN and +-inf samples for float rasters"]
    # ---- ROI: every case from TLC ---------------------------------------------------------------------------------------------
    res = chk.tlc("MC_Input", "MC_Input_roi.cfg" if tier == "quick" else "MC_Input_roi_thorough.cfg", label="roi", workers=1, timeout=900, heap="6g")
    for inv in res.invariant_violations:
        chk.violation("spec:" + inv, {"model": "MC_Input", "invariant": inv}, {"tlc": res.trace_text()}, "")
    behs = [v for tag, v in res.printed if tag == "BEH" and isinstance(v, dict)]
    if len(behs) < 10000:
        raise MachineryFailure(f"only {len(behs)} ROI behaviours")
    chk.extra["roi_behaviours_generated_by_tlc"] = len(behs)
    W, H = 5, 4
    for b in behs:
        q = b["roi"]
        roi = {"col": {"first": q["fc"], "last": q["lc"]}, "row": {"first": q["fr"], "last": q["lr"]}, "margins": [q["ml"], q["mu"], q["mr"], q["md"]]}
        feat = {"roi_starts_at_width_or_height": bool(q["fc"] - q["ml"] == W or q["fr"] - q["mu"] == H), "expected_refused": b["refused"]}
        try:
            w = get_window(roi, W, H)
            got = [int(w.col_off), int(w.row_off), int(w.width), int(w.height)]
        except ValueError:
            got = None
        chk.evaluations += 1
        if b["refused"] and got is not None:
            chk.violation("roi_outside_refused", feat, {"roi": roi, "got_window": got}, f"ROI entirely outside the {W}x{H} image not refused: {roi} -> {got}")
        elif not b["refused"] and got != list(b["window"]):
            chk.violation("roi_window", feat, {"roi": roi, "got_window": got, "expected": b["window"]}, f"window of {roi}: {got} instead of {b['window']}")
    chk.nontrivial.update(("roi", i) for i in range(len(behs)))
    # ---- ROI read = crop of the full read ---------------------------------------------------------------------------------------
    img = rng.randint(0, 200, size=(2, H, W)).astype(np.float32)
    msk = rng.choice([0, 0, 1, 2], size=(H, W)).astype(np.int16)
    grid = np.stack([rng.randint(-5, 0, size=(H, W)), rng.randint(0, 5, size=(H, W))]).astype(np.float32)
    classif = rng.randint(0, 3, size=(2, H, W)).astype(np.int16)
    segm = rng.randint(0, 9, size=(H, W)).astype(np.int16)
    f_img = build.write_tif(tmp / "img.tif", img, descriptions=["r", "g"])
    f_msk = build.write_tif(tmp / "msk.tif", msk)
    f_grid = build.write_tif(tmp / "grid.tif", grid)
    f_cl = build.write_tif(tmp / "classif.tif", classif, descriptions=["a", "b"])
    f_sg = build.write_tif(tmp / "segm.tif", segm)
    section = {"img": f_img, "nodata": 7, "mask": f_msk, "disp": f_grid, "classif": f_cl, "segm": f_sg}
    full = create_dataset_from_inputs(input_config=section)

    def arrays(ds):
        out = {"im0": ds["im"].data[0], "im1": ds["im"].data[1], "dmin": ds["disparity"].data[0], "dmax": ds["disparity"].data[1],
               "cl0": ds["classif"].data[0], "cl1": ds["classif"].data[1], "segm": ds["segm"].data}
        if "msk" in ds.data_vars:
            out["msk"] = ds["msk"].data
        return out
    try:
        A = arrays(full)
    except (KeyError, IndexError, ValueError, AttributeError) as exc:
        chk.violation("dataset_structure", {"read": "full", "exception": type(exc).__name__}, {"exception": repr(exc)[:300]},
                      f"the dataset read from a 2-band image with mask, grid, classification and segmentation lacks a variable / band: {exc!r}")
        A = None
    rel, relmeta = [], {}
    accepted = [b for b in behs if not b["refused"]]
    idx = rng.permutation(len(accepted))[: (300 if tier == "quick" else 3000)]
    for j in (idx if A is not None else []):
        b = accepted[j]
        q = b["roi"]
        roi = {"col": {"first": q["fc"], "last": q["lc"]}, "row": {"first": q["fr"], "last": q["lr"]}, "margins": [q["ml"], q["mu"], q["mr"], q["md"]]}
        try:
            part = create_dataset_from_inputs(input_config=section, roi=roi)
        except Exception as exc:  # pylint: disable=broad-except
            chk.violation("roi_read", {"exception": type(exc).__name__}, {"roi": roi, "exception": repr(exc)[:200]}, f"reading with ROI {roi} raised")
            continue
        c0, r0, w, h = b["window"]
        try:
            K = arrays(part)
        except (KeyError, IndexError, ValueError, AttributeError) as exc:
            chk.violation("dataset_structure", {"read": "roi", "exception": type(exc).__name__}, {"roi": roi, "exception": repr(exc)[:300]},
                          f"the dataset read with ROI {roi} lacks a variable / band: {exc!r}")
            continue
        coords_ok = (list(part.coords["row"].data) == list(range(r0, r0 + h)) and list(part.coords["col"].data) == list(range(c0, c0 + w)))
        names = sorted(set(A) & set(K))
        shapes_ok = all(K[x].shape == (h, w) for x in names) and set(A) == set(K)
        chk.count(("roi_read", j))
        if not coords_ok or not shapes_ok:
            chk.violation("roi_read_is_crop", {"part": "coordinates_or_shape"}, {"roi": roi, "window": b["window"], "rows": list(map(int, part.coords["row"].data)),
                                                                                 "cols": list(map(int, part.coords["col"].data))}, f"ROI {roi}: wrong coordinates/shape/variables")
            continue
        enc = enc_joint([A[x] for x in names] + [K[x] for x in names])
        cid = f"roi{j}"
        rel.append({"id": cid, "kind": "crop", "names": names, "R": H, "C": W, "rows": h, "cols": w, "r0": r0, "c0": c0, "rr": 0, "rc": 0, "ext": 0, "m": 1,
                    "A": enc[:len(names)], "B": enc[len(names):]})
        relmeta[cid] = {"roi": roi, "window": b["window"]}
    verdicts = chk.tlc_cases("RelTrace", "RelTrace.cfg", rel, label="c16roi", chunk=150, parallel=8)
    for cid, v in verdicts.items():
        for clause in v["failed"]:
            chk.violation("roi_read_is_crop", {"part": clause}, {"meta": relmeta[cid], "detail": v["detail"]}, f"{cid}: {clause} differs from the crop of the full read")
    # ---- dataset content ----------------------------------------------------------------------------------------------------------
    cases, meta = [], {}
    ncase = 120 if tier == "quick" else 1500
    for k in range(ncase):
        rows, cols = int(rng.randint(2, 5)), int(rng.randint(3, 6))
        nb = int([1, 1, 2, 3][k % 4])
        dt = [np.uint8, np.int16, np.float32][k % 3]
        nodata = [-9999, 0, 255, float("nan"), float("inf"), float("-inf"), 3][k % 7]
        if dt != np.float32 and (isinstance(nodata, float) and not np.isfinite(nodata)):
            nodata = 0
        if dt == np.uint8 and nodata == -9999:
            nodata = 255
        data = rng.randint(0, 6, size=(nb, rows, cols)).astype(np.float64)
        if dt == np.float32:
            for val in (np.nan, np.inf, -np.inf):
                if rng.rand() < 0.5:
                    data[rng.randint(nb), rng.randint(rows), rng.randint(cols)] = val
        if np.isfinite(nodata) and rng.rand() < 0.7:
            data[rng.randint(nb), rng.randint(rows), rng.randint(cols)] = nodata
        if dt == np.float32 and np.isfinite(nodata) and rng.rand() < 0.6:
            # a sample merely CLOSE to the nodata value is not no-data (multiples of 1/64: exact in float32 and at scale 1000... of 1/8)
            data[rng.randint(nb), rng.randint(rows), rng.randint(cols)] = nodata + float(rng.choice([0.0625, -0.0625, 1.0 / 512]))
        descs = [f"b{i}" for i in range(nb)] if nb > 1 else None
        # every fifth case REWRITES files that an earlier case of this process has read (same names, new content and shape)
        reuse = (k % 5 == 0)
        fimg = build.write_tif(tmp / ("reused_img.tif" if reuse else f"i{k}.tif"), data, dtype=dt, descriptions=descs)
        with_mask = k % 2 == 0
        inmask = rng.choice([-1, 0, 0, 0, 1, 2, 255], size=(rows, cols)).astype(np.int16) if with_mask else None
        fmask = build.write_tif(tmp / ("reused_msk.tif" if reuse else f"m{k}.tif"), inmask) if with_mask else None
        disp_kind = ["list", "grid", "none"][k % 3]
        if disp_kind == "list":
            disp = [-3, 2]
        elif disp_kind == "grid":
            g = np.stack([rng.randint(-4, 0, size=(rows, cols)), rng.randint(0, 4, size=(rows, cols))]).astype(np.float32)
            disp = build.write_tif(tmp / f"d{k}.tif", g)
        else:
            disp = None
        sec = {"img": fimg, "nodata": nodata, "mask": fmask, "disp": disp}
        stored = data.astype(dt).astype(np.float32)          # what the file holds, read as float32
        feat = {"dtype": np.dtype(dt).name, "nodata": str(nodata), "bands": nb, "mask": with_mask, "disp": disp_kind,
                "negative_mask_values": bool(with_mask and (inmask < 0).any()), "file_rewritten_in_process": reuse,
                "inf_nodata_with_opposite_inf_sample": bool(isinstance(nodata, float) and np.isinf(nodata) and np.isinf(stored).any() and (stored == -nodata).any())}
        chk.count(("dataset", k, np.dtype(dt).name, str(nodata), nb, with_mask, disp_kind))
        try:
            ds = create_dataset_from_inputs(input_config=sec)
        except Exception as exc:  # pylint: disable=broad-except
            chk.violation("total", dict(feat, exception=type(exc).__name__), {"section": {k2: str(v2) for k2, v2 in sec.items()}, "exception": repr(exc)[:300]},
                          f"create_dataset_from_inputs raised on {feat}")
            continue
        try:
            if tuple(ds["im"].shape) != ((nb, rows, cols) if nb > 1 else (rows, cols)):
                raise ValueError(f"im has shape {tuple(ds['im'].shape)}, the file holds {(nb, rows, cols)}")
            im = ds["im"].data if nb > 1 else ds["im"].data[np.newaxis]
            out = {"im": [enc_samples(b) for b in im], "dtype_ok": str(ds["im"].dtype) == "float32",
                   "has_msk": "msk" in ds.data_vars, "msk": enc_int(ds["msk"].data) if "msk" in ds.data_vars else enc_int(np.zeros((rows, cols))),
                   "no_data_img": enc_one(ds.attrs.get("no_data_img", np.nan)),
                   "bands_ok": (list(ds.coords["band_im"].data) == descs) if nb > 1 else ("band_im" not in ds.coords),
                   "coords_ok": list(ds.coords["row"].data) == list(range(rows)) and list(ds.coords["col"].data) == list(range(cols)),
                   "valid_pixels": int(ds.attrs["valid_pixels"]), "no_data_mask": int(ds.attrs["no_data_mask"])}
            if disp_kind == "none":
                out["disp_ok"] = "disparity" not in ds.data_vars
            elif disp_kind == "list":
                out["disp_ok"] = "disparity" in ds.data_vars and bool(np.all(ds["disparity"].data[0] == -3) and np.all(ds["disparity"].data[1] == 2)) \
                    and list(ds.coords["band_disp"].data) == ["min", "max"]
            else:
                out["disp_ok"] = "disparity" in ds.data_vars and bool(np.array_equal(ds["disparity"].data, g)) and list(ds.coords["band_disp"].data) == ["min", "max"]
        except (KeyError, ValueError, IndexError, AttributeError) as exc:
            chk.violation("dataset_structure", dict(feat, exception=type(exc).__name__), {"section": {k2: str(v2) for k2, v2 in sec.items()}, "exception": repr(exc)[:300]},
                          f"the dataset read from the section does not have the structure of the files: {exc!r}")
            continue
        cid = f"ds{k}"
        cases.append({"id": cid, "step": "dataset", "scale": SCALE, "rows": rows, "cols": cols, "nb": nb, "img": [enc_samples(b) for b in stored], "nodata": enc_one(nodata),
                      "mask_given": with_mask, "inmask": enc_int(inmask if with_mask else np.zeros((rows, cols))), "out": out})
        meta[cid] = feat
        if len(chk.samples) < 3:
            chk.sample({"features": feat, "img": cases[-1]["img"], "inmask": cases[-1]["inmask"], "out_msk": out["msk"], "has_msk": out["has_msk"]})
    verdicts = chk.tlc_cases("RuleTrace", "RuleTrace.cfg", cases, label="c16ds", chunk=120, parallel=8)
    for cid, v in verdicts.items():
        for clause in v["failed"]:
            m = meta[cid]
            chk.violation(clause, {"clause": clause, "negative_mask_values": m["negative_mask_values"],
                                   "inf_nodata_with_opposite_inf_sample": m["inf_nodata_with_opposite_inf_sample"]},
                          {"meta": m, "detail": v["detail"]}, f"{cid}: {clause} {v['detail']} {m}")
    shutil.rmtree(tmp, ignore_errors=True)
    chk.rule = ("every ROI case enumerated by TLC replayed into get_window; a sample of them into create_dataset_from_inputs (compared with the "
                "crop of the full read); random rasters / masks / nodata / disparities decided by TLC; distinct = distinct cases")
    return chk.finish()
