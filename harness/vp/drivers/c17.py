"""C17 - malformed inputs are refused up front; well-formed inputs never are.

(E + B2) TLC (MC_Input, modes pair / section) enumerates every subset of at most 2 (quick) / 3-4 (thorough) faults of the dataset-pair
    contract (left faults x at most one right fault x pair faults) and of the input-section contract, proves Accept <=> no fault on the
    specification, and emits each case with its verdict.  Every case is built as REAL datasets / a real input section (GeoTIFFs written
    by the harness) on several well-formed bases and passed to the real check_datasets / check_input_section: refused (any exception)
    iff the specification says so.  The well-formed bases themselves (mono/multi band, scalar/grids, with/without masks, classif, segm,
    1x1 ... 5x7) must be accepted.
"""
from __future__ import annotations

import copy
import shutil

import numpy as np
import xarray as xr

from vp import build
from vp.core import Check, MachineryFailure, WORK


def base_dataset(kind, rng, side):
    shapes = {0: (1, 1), 1: (3, 4), 2: (5, 7), 3: (2, 6), 4: (4, 4), 5: (3, 3)}
    rows, cols = shapes[kind]
    nb = 1 if kind % 2 == 0 else 3
    data = rng.randint(0, 9, size=(nb, rows, cols)).astype(np.float32)
    # an image may hold NaN samples (only an ENTIRELY NaN image is refused): one NaN band, one NaN pixel, a few NaN pixels
    if kind == 1:
        data[2] = np.nan
    elif kind == 2:
        data[0, rng.randint(rows), rng.randint(cols)] = np.nan
    elif kind == 5:
        data[rng.rand(nb, rows, cols) < 0.3] = np.nan
        data[0, 0, 0] = 1.0
    data = data[0] if nb == 1 else data
    disp = None
    if side == "L" or kind in (2, 3):
        disp = (-2, 2) if kind % 3 else (np.full((rows, cols), -3.0), np.full((rows, cols), 1.0))
        if kind == 4:
            disp = (1, 1)                       # min <= max: equality is well-formed
        elif kind == 3:
            disp[0][0, 0] = 1.0                 # ... also at a single pixel of a grid
    ds = build.make_image(data, mask=(rng.choice([0, 1, 2], size=(rows, cols)) if kind in (1, 2, 5) else None), disp=disp,
                          bands=[f"b{i}" for i in range(nb)] if nb > 1 else None)
    if kind in (3, 5) and nb > 1:
        # band names are Python str whatever the container of the coordinate (object-dtype array, as pandas / the API may give)
        ds = ds.assign_coords(band_im=np.array([f"b{i}" for i in range(nb)], dtype=object))
    if kind in (2, 4):
        ds.coords["band_classif"] = ["x", "y"]
        ds["classif"] = xr.DataArray(rng.randint(0, 2, size=(2, rows, cols)).astype(np.int16), dims=["band_classif", "row", "col"])
    if kind in (3, 4):
        ds["segm"] = xr.DataArray(rng.randint(0, 5, size=(rows, cols)).astype(np.int16), dims=["row", "col"])
    return ds


def apply_fault(ds, fault, rng, variant=None):
    rows, cols = ds.sizes["row"], ds.sizes["col"]
    if fault == "no_im":
        return ds.drop_vars("im")
    if fault == "band_names_not_str":
        # "string band names" is a statement about EVERY name: numeric coordinates, object-typed coordinates of numbers, and
        # object-typed coordinates holding strings and one non-string (None = a band without description, or a number)
        how = rng.randint(0, 5) if variant is None else variant
        if "band_im" in ds.coords:
            nb = ds.sizes["band_im"]
            if how == 0:
                names = list(range(nb))
            elif how == 1:
                names = np.array(list(range(nb)), dtype=object)
            else:
                names = np.array([f"b{i}" for i in range(nb)], dtype=object)
                names[rng.randint(0, nb)] = [None, 1, 2.5][how - 2]
            return ds.assign_coords(band_im=names)
        one = [1] if how % 2 == 0 else np.array([None if how == 1 else 7], dtype=object)
        new = xr.Dataset({"im": (["band_im", "row", "col"], ds["im"].data[np.newaxis])}, coords={"band_im": one, "row": ds.coords["row"], "col": ds.coords["col"]}, attrs=ds.attrs)
        for v in ds.data_vars:
            if v != "im":
                new[v] = ds[v]
        return new
    if fault == "all_nan":
        ds = ds.copy(deep=True)
        ds["im"].data[...] = np.nan
        return ds
    if fault in ("msk_off_grid", "classif_off_grid", "segm_off_grid", "disparity_off_grid"):
        ds = ds.copy(deep=True)
        if fault == "msk_off_grid":
            ds = ds.drop_vars("msk", errors="ignore")
            ds["msk"] = xr.DataArray(np.zeros((rows + 1, cols), dtype=np.int16), dims=["row_m", "col"])
        elif fault == "segm_off_grid":
            ds = ds.drop_vars("segm", errors="ignore")
            ds["segm"] = xr.DataArray(np.zeros((rows, cols + 2), dtype=np.int16), dims=["row", "col_s"])
        elif fault == "classif_off_grid":
            ds = ds.drop_vars("classif", errors="ignore")
            if "band_classif" not in ds.coords:
                ds.coords["band_classif"] = ["x"]
            ds["classif"] = xr.DataArray(np.zeros((ds.sizes["band_classif"], rows + 1, cols + 1), dtype=np.int16), dims=["band_classif", "row_c", "col_c"])
        else:
            ds = ds.drop_vars("disparity", errors="ignore")
            ds.coords["band_disp"] = ["min", "max"]
            ds["disparity"] = xr.DataArray(np.stack([np.full((rows + 1, cols), -1.0), np.full((rows + 1, cols), 1.0)]), dims=["band_disp", "row_d", "col"])
        return ds
    if fault.startswith("no_attr_"):
        ds = ds.copy(deep=True)
        ds.attrs = {k: v for k, v in ds.attrs.items() if k != fault[len("no_attr_"):]}
        return ds
    if fault == "disparity_without_min":
        ds = ds.copy(deep=True)
        d = ds["disparity"].data if "disparity" in ds.data_vars else np.stack([np.full((rows, cols), -1.0), np.full((rows, cols), 1.0)])
        ds = ds.drop_vars("disparity", errors="ignore").drop_vars("band_disp", errors="ignore")
        ds.coords["band_disp"] = ["lowest", "max"]
        ds["disparity"] = xr.DataArray(d, dims=["band_disp", "row", "col"])
        return ds
    if fault == "disparity_min_gt_max":
        ds = ds.copy(deep=True)
        if "disparity" not in ds.data_vars:
            ds.coords["band_disp"] = ["min", "max"]
            ds["disparity"] = xr.DataArray(np.stack([np.full((rows, cols), -1.0), np.full((rows, cols), 1.0)]), dims=["band_disp", "row", "col"])
        ds["disparity"].data[0, rng.randint(rows), rng.randint(cols)] = 9.0
        return ds
    raise ValueError(fault)


ORDER = ["disparity_without_min", "disparity_min_gt_max", "disparity_off_grid", "msk_off_grid", "classif_off_grid", "segm_off_grid",
         "band_names_not_str", "all_nan", "no_attr_no_data_img", "no_attr_valid_pixels", "no_attr_no_data_mask", "no_attr_crs", "no_attr_transform", "no_im"]


def compatible(faults):
    f = set(faults)
    if "no_im" in f and f & {"all_nan", "band_names_not_str"}:
        return False
    if len(f & {"disparity_without_min", "disparity_min_gt_max", "disparity_off_grid"}) > 1:
        return False
    return True


def run(tier):
    from pandora.check_configuration import check_datasets, check_input_section
    chk = Check("C17", tier, level="model_checking")
    rng = np.random.RandomState(chk.seed + 1717)
    tmp = WORK / f"c17files-{chk.seed}-{tier}"
    if tmp.exists():
        shutil.rmtree(tmp)
    tmp.mkdir(parents=True)
    chk.assumptions += ["a refusal is any exception raised by check_datasets / check_input_section",
                        "fault combinations that cannot coexist on one dataset (no image and all-NaN image, two different disparity faults) are skipped"]
    sfx = "" if tier == "quick" else "_thorough"
    # ---- dataset pairs -------------------------------------------------------------------------------------------------------------
    res = chk.tlc("MC_Input", f"MC_Input_pair{sfx}.cfg", label="pairs", workers=1, timeout=900, heap="6g")
    for inv in res.invariant_violations:
        chk.violation("spec:" + inv, {"model": "MC_Input", "invariant": inv}, {"tlc": res.trace_text()}, "")
    behs = [v for tag, v in res.printed if tag == "BEH" and isinstance(v, dict)]
    if len(behs) < 1000:
        raise MachineryFailure(f"only {len(behs)} pair behaviours")
    for kind in range(6):
        L, R = base_dataset(kind, rng, "L"), base_dataset(kind, rng, "R")
        chk.count(("base", kind))
        try:
            check_datasets(L, R)
        except Exception as exc:  # pylint: disable=broad-except
            chk.violation("well_formed_accepted", {"base": kind}, {"exception": repr(exc)[:300]}, f"well-formed base pair {kind} refused: {exc!r}")
    # every VARIANT of the band-name fault on its own, on each side of every base (the verdict is the specification's verdict of the
    # behaviour whose only fault is this one): "string band names" is about every name of the coordinate, whatever its container
    for side in ("L", "R"):
        want = [b for b in behs if sorted(b["fl" if side == "L" else "fr"]) == ["band_names_not_str"] and not b["fr" if side == "L" else "fl"] and not b["fp"]]
        if side == "L" and not want:
            raise MachineryFailure("no behaviour with the band-name fault alone")
        for kind in range(6):
            for variant in range(5):
                if not want:
                    continue
                L, R = base_dataset(kind, rng, "L"), base_dataset(kind, rng, "R")
                if side == "L":
                    L = apply_fault(L, "band_names_not_str", rng, variant)
                else:
                    R = apply_fault(R, "band_names_not_str", rng, variant)
                chk.count(("band_variant", side, kind, variant))
                try:
                    check_datasets(L, R)
                    got = True
                except Exception:  # pylint: disable=broad-except
                    got = False
                if got != want[0]["accepted"]:
                    bad = (L if side == "L" else R).coords["band_im"]
                    chk.violation("accept_iff_well_formed", {"contract": "dataset_pair", "expected_accept": want[0]["accepted"],
                                                              "faults_left": sorted(want[0]["fl"]), "faults_right": sorted(want[0]["fr"]), "faults_pair": []},
                                  {"base": kind, "behaviour": want[0], "band_im": [repr(x) for x in bad.data], "dtype": str(bad.dtype)},
                                  f"dataset pair whose {side} band names are {[repr(x) for x in bad.data]} (dtype {bad.dtype}): accepted={got}")
    step = 1 if tier == "thorough" else 3
    for i, b in enumerate(behs[::step]):
        if not (compatible(b["fl"]) and compatible(b["fr"])):
            continue
        kind = i % 6
        L, R = base_dataset(kind, rng, "L"), base_dataset(kind, rng, "R")
        try:
            for f in sorted(b["fl"], key=ORDER.index):
                L = apply_fault(L, f, rng)
            for f in sorted(b["fr"], key=ORDER.index):
                R = apply_fault(R, f, rng)
            if "left_no_disparity" in b["fp"]:
                L = L.drop_vars("disparity", errors="ignore")
                if set(b["fl"]) & {"disparity_without_min", "disparity_min_gt_max", "disparity_off_grid"}:
                    continue
            if "shapes_differ" in b["fp"]:
                R = base_dataset((kind + 1) % 6 if kind != 4 else 1, rng, "R")
                for f in sorted(b["fr"], key=ORDER.index):
                    R = apply_fault(R, f, rng)
        except Exception as exc:  # pylint: disable=broad-except
            raise MachineryFailure(f"could not build faulty dataset {b}: {exc!r}") from exc
        chk.count(("pair", tuple(sorted(b["fl"])), tuple(sorted(b["fr"])), tuple(sorted(b["fp"])), kind))
        try:
            check_datasets(L, R)
            got = True
        except Exception as exc:  # pylint: disable=broad-except
            got = False
            excn = type(exc).__name__
        if got != b["accepted"]:
            chk.violation("accept_iff_well_formed", {"contract": "dataset_pair", "expected_accept": b["accepted"], "faults_left": sorted(b["fl"]),
                                                      "faults_right": sorted(b["fr"]), "faults_pair": sorted(b["fp"])},
                          {"base": kind, "behaviour": b}, f"dataset pair with faults L={b['fl']} R={b['fr']} pair={b['fp']}: accepted={got}")
        if len(chk.samples) < 3:
            chk.sample({"faults": b, "accepted": got})
    # ---- input sections -------------------------------------------------------------------------------------------------------------
    res = chk.tlc("MC_Input", f"MC_Input_section{sfx}.cfg", label="sections", workers=1, timeout=900, heap="6g")
    for inv in res.invariant_violations:
        chk.violation("spec:" + inv, {"model": "MC_Input", "invariant": inv}, {"tlc": res.trace_text()}, "")
    sbehs = [v for tag, v in res.printed if tag == "BEH" and isinstance(v, dict)]
    H, W = 4, 5
    img = rng.randint(0, 50, size=(H, W)).astype(np.float32)
    files = {
        "img_l": build.write_tif(tmp / "l.tif", img), "img_r": build.write_tif(tmp / "r.tif", img[:, ::-1].copy()),
        "img_r_big": build.write_tif(tmp / "rb.tif", np.zeros((H + 1, W), dtype=np.float32)),
        "mask": build.write_tif(tmp / "m.tif", np.zeros((H, W), dtype=np.int16)), "mask_bad": build.write_tif(tmp / "mb.tif", np.zeros((H, W + 1), dtype=np.int16)),
        "classif": build.write_tif(tmp / "c.tif", np.zeros((2, H, W), dtype=np.int16), descriptions=["a", "b"]),
        "classif_bad": build.write_tif(tmp / "cb.tif", np.zeros((2, H + 2, W), dtype=np.int16), descriptions=["a", "b"]),
        "segm": build.write_tif(tmp / "s.tif", np.zeros((H, W), dtype=np.int16)), "segm_bad": build.write_tif(tmp / "sb.tif", np.zeros((H + 1, W + 1), dtype=np.int16)),
        "grid": build.write_tif(tmp / "g.tif", np.stack([np.full((H, W), -2.0), np.full((H, W), 2.0)]).astype(np.float32)),
        "grid_r": build.write_tif(tmp / "gr.tif", np.stack([np.full((H, W), -2.0), np.full((H, W), 2.0)]).astype(np.float32)),
        "grid1": build.write_tif(tmp / "g1.tif", np.full((H, W), -2.0).astype(np.float32)),
        "grid3": build.write_tif(tmp / "g3.tif", np.zeros((3, H, W), dtype=np.float32)),
        "grid_size": build.write_tif(tmp / "gs.tif", np.stack([np.full((H + 1, W), -2.0), np.full((H + 1, W), 2.0)]).astype(np.float32)),
        "grid_inv": build.write_tif(tmp / "gi.tif", np.stack([np.full((H, W), 3.0), np.full((H, W), 2.0)]).astype(np.float32)),
        # min <= max: equality is well-formed (everywhere, or at some pixels)
        "grid_eq": build.write_tif(tmp / "ge.tif", np.stack([np.full((H, W), 2.0), np.full((H, W), 2.0)]).astype(np.float32)),
        "grid_eq1": build.write_tif(tmp / "ge1.tif", np.stack([np.where(np.eye(H, W) > 0, 1.0, -2.0), np.full((H, W), 1.0)]).astype(np.float32)),
    }
    bases = [
        {"left": {"img": files["img_l"], "disp": [-2, 2]}, "right": {"img": files["img_r"]}},
        {"left": {"img": files["img_l"], "disp": [-2, 2], "nodata": -9999, "mask": files["mask"], "classif": files["classif"], "segm": files["segm"]},
         "right": {"img": files["img_r"], "nodata": float("nan"), "mask": files["mask"], "disp": None}},
        {"left": {"img": files["img_l"], "disp": files["grid"]}, "right": {"img": files["img_r"]}},
        {"left": {"img": files["img_l"], "disp": files["grid"], "mask": files["mask"]}, "right": {"img": files["img_r"], "disp": files["grid_r"], "segm": files["segm"]}},
    ]
    nfault_bases = len(bases)
    bases += [
        {"left": {"img": files["img_l"], "disp": [1, 1]}, "right": {"img": files["img_r"]}},
        {"left": {"img": files["img_l"], "disp": files["grid_eq"]}, "right": {"img": files["img_r"]}},
        {"left": {"img": files["img_l"], "disp": files["grid_eq1"]}, "right": {"img": files["img_r"], "disp": files["grid_eq"]}},
    ]
    for bi, bsec in enumerate(bases):
        chk.count(("section_base", bi))
        try:
            check_input_section({"input": copy.deepcopy(bsec)})
        except Exception as exc:  # pylint: disable=broad-except
            chk.violation("well_formed_accepted", {"base": f"section{bi}"}, {"section": bsec, "exception": repr(exc)[:300]}, f"well-formed input section {bi} refused: {exc!r}")

    def faulty(sec, f, bi):
        s = copy.deepcopy(sec)
        grid_left = isinstance(s["left"]["disp"], str)
        if f == "left_img_unreadable":
            s["left"]["img"] = str(tmp / "nope_l.tif")
        elif f == "right_img_unreadable":
            s["right"]["img"] = str(tmp / "nope_r.tif")
        elif f == "nodata_float":
            s["left"]["nodata"] = 3.5
        elif f == "mask_unreadable":
            s["right"]["mask"] = str(tmp / "nope_m.tif")
        elif f == "mask_wrong_size":
            s["left"]["mask"] = files["mask_bad"]
        elif f == "classif_wrong_size":
            s["left"]["classif"] = files["classif_bad"]
        elif f == "segm_wrong_size":
            s["right"]["segm"] = files["segm_bad"]
        elif f == "images_differ_in_size":
            s["right"]["img"] = files["img_r_big"]
        elif f == "disp_max_lt_min":
            s["left"]["disp"] = [2, -2]
            s["right"]["disp"] = None
        elif f == "disp_grid_one_band":
            s["left"]["disp"] = files["grid1"]
        elif f == "disp_grid_three_bands":
            s["left"]["disp"] = files["grid3"]
        elif f == "disp_grid_wrong_size":
            s["left"]["disp"] = files["grid_size"]
        elif f == "disp_grid_min_gt_max":
            s["left"]["disp"] = files["grid_inv"]
        elif f == "right_grid_without_left_grid":
            s["left"]["disp"] = [-2, 2]
            s["right"]["disp"] = files["grid_r"]
        elif f == "right_disp_list":
            s["right"]["disp"] = [-2, 2]
        return s
    disp_faults = ["disp_max_lt_min", "disp_grid_one_band", "disp_grid_three_bands", "disp_grid_wrong_size", "disp_grid_min_gt_max",
                   "right_grid_without_left_grid", "right_disp_list"]
    for i, b in enumerate(sbehs):
        fs = sorted(b["f"])
        if len([f for f in fs if f in disp_faults]) > 1 or ("right_img_unreadable" in fs and "images_differ_in_size" in fs):
            continue
        for bi, bsec in enumerate(bases):
            s = bsec
            for f in fs:
                s = faulty(s, f, bi)
            chk.count(("section", tuple(fs), bi))
            try:
                check_input_section({"input": copy.deepcopy(s)})
                got = True
            except Exception as exc:  # pylint: disable=broad-except
                got = False
            if got != b["accepted"]:
                chk.violation("accept_iff_well_formed", {"contract": "input_section", "expected_accept": b["accepted"], "faults": fs, "base": bi},
                              {"section": {k: {k2: str(v2) for k2, v2 in v.items()} for k, v in s.items()}}, f"input section with faults {fs} (base {bi}): accepted={got}")
    # ---- history: a section refused because a file is missing must be accepted once the file exists (and conversely) --------------
    for j, key in enumerate(["img", "mask", "classif", "segm"]):
        late = tmp / f"late_{key}.tif"
        src = {"img": files["img_r"], "mask": files["mask"], "classif": files["classif"], "segm": files["segm"]}[key]
        s = copy.deepcopy(bases[1])
        s["right"][key] = str(late)
        outcomes = []
        for phase in ("missing", "present", "removed"):
            if phase == "present":
                shutil.copy(src, late)
            if phase == "removed":
                late.unlink()
            try:
                check_input_section({"input": copy.deepcopy(s)})
                outcomes.append(True)
            except Exception:  # pylint: disable=broad-except
                outcomes.append(False)
        chk.count(("late_file", key))
        if outcomes != [False, True, False]:
            chk.violation("accept_iff_well_formed", {"contract": "input_section", "history": "file_appears_later", "key": key},
                          {"outcomes_missing_present_removed": outcomes}, f"input section whose right {key} file appears later: outcomes {outcomes}")
    shutil.rmtree(tmp, ignore_errors=True)
    chk.traces = chk.evaluations
    chk.rule = ("fault subsets enumerated by TLC applied to 6 well-formed dataset-pair bases (mono/3-band, scalar/grid disparities, masks, classif, segm, "
                "1x1..5x7) and 4 well-formed input sections (harness-written GeoTIFFs); distinct = distinct (fault set, base)")
    return chk.finish()
