"""C18 - runs are reproducible and side-effect free whatever the threading.

(E) TLC, MC_Parallel (PandoraParallel.tla): for every assignment of small programs to 3 iterations with race-free footprints, EVERY
    interleaving ends in the memory of the sequential execution (and, non-vacuity, a racy assignment is shown to diverge).
(B3 i) footprint traces: each prange kernel (loop_refinement, compute_ambiguity, compute_ambiguity_and_sampled_ambiguity, compute_risk,
    compute_interval_bounds, create_connected_graph / graph_regularization through interval_regularization) is executed through its
    Python function with a recording prange and recording array proxies; TLC decides RaceFreeFootprint on the per-iteration read /
    write sets.
(B3 ii) schedule sampling of the compiled code: the same seeded problems x pipelines run in FRESH processes with NUMBA_NUM_THREADS in
    {1, 2, 3, 8, 16} and with PANDORA_NUMBA_PARALLEL=False; TLC demands equal digests per (pipeline, input) - all products across
    thread counts, disparity map and flags for the parallel-off run.
(B3 iii) histories in one process: run A twice on one machine; run X then A (other pipelines / step classes before, on the same and on
    other machine objects); every result must equal the fresh-process reference; the caller's datasets are deep-compared before / after
    every run (samples, masks, coordinates, attributes).
"""
from __future__ import annotations

import copy
import json
import os
import subprocess
import sys
from concurrent.futures import ThreadPoolExecutor

import numpy as np

from vp.core import Check, MachineryFailure, VERIF
from vp.drivers.c15 import deep_equal


def spawn(seed, n, env_extra):
    env = dict(os.environ)
    env.update(env_extra)
    p = subprocess.run([sys.executable, "-W", "ignore", "-m", "vp.c18_worker", str(seed), str(n)], env=env, capture_output=True, text=True, timeout=1800,
                       cwd=str(VERIF))
    for line in p.stdout.splitlines():
        if line.startswith("C18WORKER "):
            return json.loads(line[len("C18WORKER "):])
    if p.returncode in (-6, -7, -8, -11, 134, 135, 136, 139):
        # the worker only imports the repository and runs pipelines: killed by SIGABRT / SIGBUS / SIGFPE / SIGSEGV = memory corrupted by
        # compiled code of the implementation (the kernels run without bounds checking)
        raise WorkerCrashed(f"worker process killed by signal {abs(p.returncode) if p.returncode < 0 else p.returncode - 128} "
                            f"({env_extra}): {p.stderr[-400:]}")
    raise MachineryFailure(f"worker failed ({env_extra}): {p.stderr[-800:]}")


class WorkerCrashed(Exception):
    pass


def footprints(chk, rng, tier):
    from pandora.refinement import refinement as ref_mod
    from pandora.refinement import vfit
    from pandora.cost_volume_confidence import ambiguity as amb_mod, risk as risk_mod, interval_bounds as ib_mod
    from pandora import interval_tools as it_mod
    from vp.footprint import record
    cases = []
    for k in range(3 if tier == "quick" else 12):
        rows, cols, nd = int(rng.randint(2, 5)), int(rng.randint(2, 6)), int(rng.randint(3, 6))
        cv = rng.randint(0, 9, size=(rows, cols, nd)).astype(np.float32)
        cv[rng.rand(rows, cols, nd) < 0.15] = np.nan
        disp = rng.randint(0, nd, size=(rows, cols)).astype(np.float32)
        mask = rng.choice([0, 0, 0, 1, 64], size=(rows, cols)).astype(np.uint16)
        specs = [
            ("loop_refinement", ref_mod, ref_mod.AbstractRefinement.loop_refinement,
             (cv, disp, mask, 0.0, float(nd - 1), 1, "min", vfit.Vfit.refinement_method.py_func), (0, 1, 2)),
            ("compute_ambiguity", amb_mod, amb_mod.Ambiguity.compute_ambiguity, (cv, np.float32(0.0), np.float32(0.5), np.float32(0.125)), (0,)),
            ("compute_ambiguity_and_sampled_ambiguity", amb_mod, amb_mod.Ambiguity.compute_ambiguity_and_sampled_ambiguity,
             (cv, np.float32(0.0), np.float32(0.5), np.float32(0.125)), (0,)),
            ("compute_interval_bounds", ib_mod, ib_mod.IntervalBounds.compute_interval_bounds,
             (cv, np.arange(nd, dtype=np.float32), np.float32(0.9), np.float32(-1.0)), (0, 1)),
        ]
        samp = amb_mod.Ambiguity.compute_ambiguity_and_sampled_ambiguity(cv, np.float32(0.0), np.float32(0.5), np.float32(0.125))[1]
        specs.append(("compute_risk", risk_mod, risk_mod.Risk.compute_risk, (cv, samp, np.float32(0.0), np.float32(0.5), np.float32(0.125)), (0, 1)))
        specs.append(("compute_risk_and_sampled_risk", risk_mod, risk_mod.Risk.compute_risk_and_sampled_risk,
                      (cv, samp, np.float32(0.0), np.float32(0.5), np.float32(0.125)), (0, 1)))
        specs.append(("loop_approximate_refinement", ref_mod, ref_mod.AbstractRefinement.loop_approximate_refinement,
                      # right disparities of the 'approximate' method: -k with the diagonal column col - k inside the image
                      (cv, -np.minimum(disp, np.arange(cols, dtype=np.float32)[None, :]), mask, 0.0, float(nd - 1), 1, "min",
                       vfit.Vfit.refinement_method.py_func), (0, 1, 2)))
        # interval regularisation kernels
        bl = np.array([[r, 0] for r in range(rows)], dtype=np.int64)
        br = np.array([[r, cols - 1] for r in range(rows)], dtype=np.int64)
        specs.append(("create_connected_graph", it_mod, it_mod.create_connected_graph, (bl, br, 2), (0, 1)))
        graph = it_mod.create_connected_graph(bl, br, 2)
        inf = rng.rand(rows, cols).astype(np.float32)
        specs.append(("graph_regularization", it_mod, it_mod.graph_regularization, (inf, inf + 1, bl, br, graph, 1.0), (0, 1, 2, 3, 4)))
        for name, mod, fn, args, pos in specs:
            try:
                iters = record(mod, fn, args, pos)
            except Exception as exc:  # pylint: disable=broad-except
                from vp.core import _raised_in_repo
                in_repo, frames = _raised_in_repo(exc.__traceback__)
                if in_repo:
                    # the kernel's own Python source raised on arguments every unchanged kernel accepts
                    chk.violation("total", {"kernel": name, "exception": type(exc).__name__}, {"exception": repr(exc)[:300], "frames": frames},
                                  f"kernel {name} raised {exc!r} on a {rows}x{cols}x{nd} volume")
                    continue
                raise MachineryFailure(f"footprint recording of {name} failed: {exc!r}") from exc
            chk.count(("footprint", name, rows, cols, nd))
            for li, loop_iters in enumerate(iters):
                cases.append({"id": f"fp{k}{name}#{li}", "kind": "footprint", "kernel": name, "iters": loop_iters})
    return cases


def run(tier):
    import pandora
    from pandora.state_machine import PandoraMachine
    from vp import c18_worker as w
    chk = Check("C18", tier)
    rng = np.random.RandomState(chk.seed + 1818)
    chk.assumptions += [
        "real thread interleavings of numba's compiled kernels cannot be enumerated or controlled: they are SAMPLED (thread counts 1, 2, 3, 8, 16 "
        "in fresh processes), and the sufficient condition (race-free footprints) is decided on the source-level access pattern of the same "
        "functions (numba could in principle compile them differently)",
        "numba parallelises the outermost prange only: the iteration identity of a footprint is the outer index",
    ]
    res = chk.tlc("MC_Parallel", "MC_Parallel.cfg", label="schedules", workers=8, timeout=600)
    for inv in res.invariant_violations:
        chk.violation("model:" + inv, {"model": "MC_Parallel", "invariant": inv}, {"tlc": res.trace_text()}, "race-free footprints do not imply schedule independence")
    racy = chk.tlc("MC_Parallel", "MC_Parallel_racy.cfg", label="schedules_racy", workers=4, timeout=600, expect_ok=False)
    if "ScheduleIndependent" not in racy.invariant_violations:
        raise MachineryFailure("vacuity gate: the racy instance of MC_Parallel does not diverge")
    cases = footprints(chk, rng, tier)
    # ---- (ii) schedule sampling in fresh processes -------------------------------------------------------------------------------------
    nprob = 2 if tier == "quick" else 8
    seed = chk.seed + 77
    envs = [("t1", {"NUMBA_NUM_THREADS": "1"}), ("t2", {"NUMBA_NUM_THREADS": "2"}), ("t3", {"NUMBA_NUM_THREADS": "3"}),
            ("t8", {"NUMBA_NUM_THREADS": "8"}), ("t16", {"NUMBA_NUM_THREADS": "16"}), ("poff", {"PANDORA_NUMBA_PARALLEL": "False", "NUMBA_NUM_THREADS": "4"})]
    envs.append(("rev", {"NUMBA_NUM_THREADS": "3", "C18_ORDER": "reverse"}))
    if tier == "quick":
        envs = [e for e in envs if e[0] in ("t1", "t3", "t16", "poff", "rev")]
    try:
        with ThreadPoolExecutor(max_workers=len(envs)) as ex:
            results = dict(zip([e[0] for e in envs], ex.map(lambda e: spawn(seed, nprob, e[1]), envs)))
    except WorkerCrashed as exc:
        chk.violation("interpreter_crashed", {"where": "fresh worker process"}, {"what": str(exc)[:600]},
                      "a fresh process that only runs the pipelines was killed by a signal: " + str(exc)[:200])
        verdicts = chk.tlc_cases("RelTrace", "RelTrace.cfg", cases, label="c18", chunk=150, parallel=6)
        for cid, v in verdicts.items():
            for clause in v["failed"]:
                chk.violation("race_free", {"kernel": cid.split("#")[0][3:]}, {"detail": v["detail"]}, f"{cid}: {clause}")
        return chk.finish()
    ref_env = "t1"
    keys = sorted(results[ref_env])
    for key in keys:
        tenvs = [e for e in results if e != "poff"]
        cases.append({"id": f"dg:{key}", "kind": "digest", "what": "all_products_across_thread_counts", "envs": tenvs, "digests": [results[e][key]["all"] for e in tenvs]})
        if "val" not in key:
            cases.append({"id": f"dp:{key}", "kind": "digest", "what": "disparity_and_flags_parallel_off", "envs": [ref_env, "poff"],
                          "digests": [results[ref_env][key]["disp_flags"], results["poff"][key]["disp_flags"]]})
        chk.count(("digest", key))
        if any(str(results[e][key]["all"]).startswith("EXC") for e in results):
            chk.violation("total", {"key": key.split(":")[1]}, {"results": {e: results[e][key] for e in results}}, f"a run raised: {key}")
    chk.sample({"key": keys[0], "digests": {e: results[e][keys[0]] for e in results}})
    # ---- (iii) histories in this process --------------------------------------------------------------------------------------------------
    probs = w.problems(seed, nprob)
    for i, (prob, pipes) in enumerate(probs):
        names = list(pipes)
        machine = PandoraMachine()
        other = PandoraMachine()
        hist = []
        for a in names:
            hist.append(("fresh_machine", None, a))
        for a in names[:3] + ["ms", "val_sfx", "cbca_val"]:
            hist.append(("same_machine_again", a, a))
        for a in ("conf", "mfi", "ms"):
            hist.append(("same_cfg_dict_again", a, a))
        for x, a in [("bil20", "bil23"), ("bil23", "bil20"), ("conf", "plain"), ("cbca_val", "plain"), ("mfi", "conf"), ("plain", "cbca_val"), ("cbca_val", "mfi"),
                     ("sgm_val", "cbca_val"), ("cbca_val", "sgm_val")]:
            hist.append(("after_other_pipeline_same_machine", x, a))
            hist.append(("after_other_pipeline_other_machine", x, a))
        for shape, x, a in hist:
            try:
                if shape == "same_cfg_dict_again":
                    # the caller keeps ONE configuration dictionary and runs it twice (fresh machines, fresh datasets)
                    from vp import dataplane as dp
                    cfg_obj = {"pipeline": {nm: dict(c) for nm, c in pipes[a]}}
                    pandora.run(PandoraMachine(), *dp.make_datasets(prob), cfg_obj)
                    left, right = dp.make_datasets(prob)
                    l0, r0 = left.copy(deep=True), right.copy(deep=True)
                    l0.attrs, r0.attrs = copy.deepcopy(left.attrs), copy.deepcopy(right.attrs)
                    l, r = pandora.run(PandoraMachine(), left, right, cfg_obj)
                elif shape == "same_machine_again":
                    w.run_one(prob, pipes[x], machine)
                    l, r, left, right = None, None, None, None
                    from vp import dataplane as dp
                    left, right = dp.make_datasets(prob)
                    l0, r0 = left.copy(deep=True), right.copy(deep=True)
                    l0.attrs, r0.attrs = copy.deepcopy(left.attrs), copy.deepcopy(right.attrs)
                    l, r = pandora.run(machine, left, right, {"pipeline": {nm: dict(c) for nm, c in pipes[a]}})
                else:
                    if x is not None:
                        w.run_one(prob, pipes[x], machine if shape.endswith("same_machine") else other)
                    from vp import dataplane as dp
                    left, right = dp.make_datasets(prob)
                    l0, r0 = left.copy(deep=True), right.copy(deep=True)
                    l0.attrs, r0.attrs = copy.deepcopy(left.attrs), copy.deepcopy(right.attrs)
                    m = machine if shape.endswith("same_machine") else PandoraMachine()
                    l, r = pandora.run(m, left, right, {"pipeline": {nm: dict(c) for nm, c in pipes[a]}})
            except Exception as exc:  # pylint: disable=broad-except
                chk.violation("total", {"history": shape, "pipeline": a}, {"exception": repr(exc)[:300], "before": x}, f"history {shape} ({x} then {a}) raised {exc!r}")
                continue
            dg = w.digest(l) + w.digest(r if len(r.data_vars) else None)
            cases.append({"id": f"h{i}:{shape}:{x}:{a}", "kind": "digest", "what": "history_vs_fresh_process", "envs": ["fresh_process", shape],
                          "digests": [results[ref_env][f"{i}:{a}"]["all"], dg]})
            chk.count(("history", i, shape, x, a))
            if not (deep_equal(left, l0) and deep_equal(right, r0)):
                def differs(x, y):
                    x, y = np.asarray(x), np.asarray(y)
                    return x.shape != y.shape or not (np.array_equal(x, y, equal_nan=True) if x.dtype.kind == "f" else np.array_equal(x, y))
                diffs = [f"{sd}:{v}" for sd, cur, old in (("left", left, l0), ("right", right, r0)) for v in list(cur.data_vars) + list(cur.coords)
                         if v not in old or differs(cur[v].data, old[v].data)]
                attr_diff = sorted(set(map(str, left.attrs)) ^ set(map(str, l0.attrs))) + sorted(set(map(str, right.attrs)) ^ set(map(str, r0.attrs)))
                chk.violation("inputs_unmodified", {"pipeline": a, "part": "attributes" if attr_diff and not diffs else "data"},
                              {"changed_variables": diffs, "attribute_keys_added_or_removed": attr_diff}, f"pipeline {a} modified the caller's datasets: vars {diffs} attrs {attr_diff}")
    verdicts = chk.tlc_cases("RelTrace", "RelTrace.cfg", cases, label="c18", chunk=150, parallel=6)
    by = {c["id"]: c for c in cases}
    for cid, v in verdicts.items():
        for clause in v["failed"]:
            c = by[cid]
            if c["kind"] == "footprint":
                chk.violation("race_free", {"kernel": c["kernel"]}, {"detail": v["detail"]}, f"{c['kernel']}: iterations {v['detail']} conflict")
            else:
                parts = cid.split(":")
                chk.violation(c["what"], {"what": c["what"], "pipeline": parts[-1] if c["what"] == "history_vs_fresh_process" else parts[2],
                                          "history": parts[1] if c["what"] == "history_vs_fresh_process" else ""},
                              {"envs": c["envs"], "digests": c["digests"]}, f"{cid}: products differ: {dict(zip(c['envs'], c['digests']))}")
    chk.rule = ("seeded problems x 6 pipelines (refinement, ambiguity/risk/interval bounds, bilateral, cbca + validation + filling, median_for_intervals "
                "with regularisation) in fresh processes per thread count; histories in one process vs the fresh-process reference; footprints of "
                "7 prange kernels; distinct = distinct (kind, problem, pipeline, history)")
    return chk.finish()
