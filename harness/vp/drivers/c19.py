"""C19 - saved products equal the computed ones and the saved configuration replays.

(E) TLC, MC_Main: exhaustive model of the command-line protocol (every outcome of the two checks, with/without validation, 0-2
    bands): nothing is written before the run or when an input is refused, the final file set is exactly the expected one,
    right_* files iff the pipeline has a validation step.
(B3) the real pandora.main run end to end on harness-written GeoTIFFs (with and without CRS / transform, mono / multi-band,
    integer intervals and disparity grids, invalid_disparity -9999 / NaN, pipelines with / without validation and confidence steps),
    traced from outside (the functions main calls are wrapped; the output directory is listed after every protocol step); TLC
    (MainTrace) validates the event sequence and the files present after each step against PandoraMain.tla, and the observations
    made on the written files: pixel-for-pixel equality with the in-memory products (NaN included), float32 / uint16, band
    descriptions = indicators, georeferencing, loadable cfg/config.json holding the completed configuration and the margins, and
    the replay of cfg/config.json (accepted, same rasters).  The saved margins are also decided against Margins.tla (C20).
"""
from __future__ import annotations

import copy
import json
import math
import os
import shutil

import numpy as np

from vp import build
from vp.core import Check, WORK
from vp.project import same_bits


def list_files(out):
    res = []
    for root, _, files in os.walk(out):
        for f in files:
            res.append(os.path.relpath(os.path.join(root, f), out).replace(os.sep, "/"))
    return sorted(res)


def json_equal(a, b):
    if isinstance(a, dict) and isinstance(b, dict):
        return list(a.keys()) == list(b.keys()) and all(json_equal(a[k], b[k]) for k in a)
    if isinstance(a, (list, tuple)) and isinstance(b, (list, tuple)):
        return len(a) == len(b) and all(json_equal(x, y) for x, y in zip(a, b))
    if isinstance(a, float) and isinstance(b, float) and math.isnan(a) and math.isnan(b):
        return True
    return a == b


def traced_main(cfg_path, out):
    """runs the real pandora.main with the functions it calls wrapped; returns (events, products, machine, checked cfg, exception)"""
    import pandora
    events, box = [], {"reads": 0}
    orig = {k: getattr(pandora, k) for k in ("check_conf", "create_dataset_from_inputs", "check_datasets", "run", "PandoraMachine")}
    orig_save, orig_savecfg = pandora.common.save_results, pandora.common.save_config

    def ev(name, **kw):
        events.append(dict(ev=name, files=list_files(out) if os.path.isdir(out) else [], **kw))

    def w_check_conf(user_cfg, machine):
        try:
            r = orig["check_conf"](user_cfg, machine)
        except Exception:
            ev("CheckConf", ok=False)
            raise
        box["checked"] = copy.deepcopy(r)
        box["machine"] = machine
        ev("CheckConf", ok=True)
        return r

    def w_read(*a, **kw):
        r = orig["create_dataset_from_inputs"](*a, **kw)
        box["reads"] += 1
        if box["reads"] == 2:
            ev("Read")
        return r

    def w_check_datasets(l, r):
        try:
            orig["check_datasets"](l, r)
        except Exception:
            ev("CheckDatasets", ok=False)
            raise
        ev("CheckDatasets", ok=True)

    def w_run(machine, l, r, cfg):
        for side, ds in (("left", l), ("right", r)):
            box[f"in_{side}_disp"] = ([float(ds["disparity"].sel(band_disp="min").min()), float(ds["disparity"].sel(band_disp="max").max())]
                                      if "disparity" in ds.data_vars else None)
        left, right = orig["run"](machine, l, r, cfg)
        box["left"], box["right"] = left.copy(deep=True), right.copy(deep=True)
        has_val = any(k.split(".")[0] == "validation" for k in cfg["pipeline"])
        nl = int(left.sizes.get("indicator", 0)) if "confidence_measure" in left.data_vars else 0
        nr = int(right.sizes.get("indicator", 0)) if "confidence_measure" in right.data_vars else 0
        ev("Run", hasVal=bool(has_val), nl=nl, nr=nr)
        return left, right

    def w_save(left, right, output):
        orig_save(left, right, output)
        ev("Save")

    def w_savecfg(output, cfg):
        orig_savecfg(output, cfg)
        ev("SaveConfig")
    exc = None
    try:
        pandora.check_conf, pandora.create_dataset_from_inputs, pandora.check_datasets, pandora.run = w_check_conf, w_read, w_check_datasets, w_run
        pandora.common.save_results, pandora.common.save_config = w_save, w_savecfg
        pandora.main(cfg_path, out, False)
    except Exception as e:  # pylint: disable=broad-except
        exc = e
    finally:
        for k, v in orig.items():
            setattr(pandora, k, v)
        pandora.common.save_results, pandora.common.save_config = orig_save, orig_savecfg
    return events, box, exc


def compare_rasters(out, box, georef):
    import rasterio
    obs = {"values_equal_products": True, "dtype_float32": True, "mask_dtype_uint16": True, "band_names_are_indicators": True, "georeferencing_kept": True,
           "product_files_present": True, "single_band_rasters": True}
    def geo_ok(f, side):
        # every product of a side carries the georeferencing of THAT side's input image (the two images of a pair need
        # not share a geotransform)
        if georef is None:
            return True
        crs, tr = georef[side]
        return f.crs is not None and f.crs.to_string() == crs and tuple(f.transform)[:6] == tuple(tr)[:6]

    for side in ("left", "right"):
        ds = box.get(side)
        if ds is None or "disparity_map" not in ds.data_vars:
            continue
        expected_files = [f"{side}_disparity.tif", f"{side}_validity_mask.tif"] + ([f"{side}_confidence_measure.tif"] if "confidence_measure" in ds.data_vars else [])
        missing = [f for f in expected_files if not os.path.exists(os.path.join(out, f))]
        if missing:
            obs["product_files_present"] = False
            continue
        with rasterio.open(os.path.join(out, f"{side}_disparity.tif")) as f:
            obs["values_equal_products"] &= same_bits(f.read(1), np.asarray(ds["disparity_map"].data, dtype=np.float32))
            obs["dtype_float32"] &= f.dtypes[0] == "float32"
            obs["single_band_rasters"] &= f.count == 1
            obs["georeferencing_kept"] &= geo_ok(f, side)
        with rasterio.open(os.path.join(out, f"{side}_validity_mask.tif")) as f:
            obs["georeferencing_kept"] &= geo_ok(f, side)
            obs["values_equal_products"] &= bool(np.array_equal(f.read(1), np.asarray(ds["validity_mask"].data).astype(np.uint16)))
            obs["mask_dtype_uint16"] &= f.dtypes[0] == "uint16"
            obs["single_band_rasters"] &= f.count == 1
        if "confidence_measure" in ds.data_vars:
            with rasterio.open(os.path.join(out, f"{side}_confidence_measure.tif")) as f:
                obs["georeferencing_kept"] &= geo_ok(f, side)
                names = list(map(str, ds.coords["indicator"].data))
                obs["band_names_are_indicators"] &= list(f.descriptions) == names and f.count == len(names)
                for i in range(min(f.count, len(names))):
                    obs["values_equal_products"] &= same_bits(f.read(i + 1), np.asarray(ds["confidence_measure"].data[:, :, i], dtype=np.float32))
                obs["dtype_float32"] &= all(d == "float32" for d in f.dtypes)
    return obs


def run(tier):
    import rasterio
    from rasterio.transform import from_origin
    chk = Check("C19", tier)
    rng = np.random.RandomState(chk.seed + 1919)
    tmp = WORK / f"c19files-{chk.seed}-{tier}"
    if tmp.exists():
        shutil.rmtree(tmp)
    tmp.mkdir(parents=True)
    chk.assumptions += ["rasterio / GDAL encoding and decoding are trusted (files are read back with the library that wrote them)",
                        "cfg/config.json is compared after a JSON round trip of the in-memory completed configuration (NaN equal to NaN)"]
    res = chk.tlc("MC_Main", "MC_Main.cfg", label="protocol", workers=2, timeout=300)
    for inv in res.invariant_violations:
        chk.violation("model:" + inv, {"model": "MC_Main", "invariant": inv}, {"tlc": res.trace_text()}, "")
    traces, meta, mcases, mmeta = [], {}, [], {}
    nrun = 14 if tier == "quick" else 150
    for k in range(nrun):
        rows, cols = int(rng.randint(8, 14)), int(rng.randint(12, 20))
        nb = 1 if k % 3 else 2
        georef = ({"left": ("EPSG:32631", from_origin(500000.0, 4000000.0, 0.5, 0.5)),
                   "right": (["EPSG:32631", "EPSG:32632"][int(k % 4 == 1)], from_origin(500000.0 + [0.0, 12.5][int(k % 4 == 1 or (k // 2) % 2 == 1)], 4000000.0, 0.5, 0.5))}
                  if (k % 2 == 0 or k % 4 == 1) else None)
        L = rng.randint(0, 200, size=(nb, rows, cols)).astype(np.float32)
        R = np.roll(L, 1, axis=2)
        d = tmp / f"run{k}"
        d.mkdir()
        kwl = dict(crs=georef["left"][0], transform=georef["left"][1]) if georef else {}
        kwr = dict(crs=georef["right"][0], transform=georef["right"][1]) if georef else {}
        fl = build.write_tif(d / "left.tif", L if nb > 1 else L[0], descriptions=["r", "g"] if nb > 1 else None, **kwl)
        fr = build.write_tif(d / "right.tif", R if nb > 1 else R[0], descriptions=["r", "g"] if nb > 1 else None, **kwr)
        grid = k % 4 == 3
        if grid:
            g = np.stack([rng.randint(-3, 0, size=(rows, cols)), rng.randint(0, 3, size=(rows, cols))]).astype(np.float32)
            disp = build.write_tif(d / "grid.tif", g)
        else:
            disp = [-3, 2]
        has_val = (k % 2 == 1) and not grid
        nconf = k % 3
        pipe = {"matching_cost": {"matching_cost_method": ["sad", "census", "zncc"][k % 3], "window_size": 3, "subpix": [1, 2][k % 2]}}
        if nb > 1:
            pipe["matching_cost"]["band"] = "g"
        for j in range(nconf):
            pipe["cost_volume_confidence" + (f".c{j}" if j else "")] = {"confidence_method": ["ambiguity", "risk"][j % 2]}
        pipe["disparity"] = {"disparity_method": "wta", "invalid_disparity": [-9999, "NaN"][k % 2]}
        if k % 4 != 0:
            pipe["refinement"] = {"refinement_method": "vfit"}
        pipe["filter"] = {"filter_method": ["median", "bilateral"][k % 2]}
        if k % 7 in (3, 5) and not grid:
            # coarse-to-fine run through the command-line path (with and without validation)
            pipe["multiscale"] = {"multiscale_method": "fixed_zoom_pyramid", "num_scales": 2, "scale_factor": 2}
        if has_val:
            pipe["validation"] = {"validation_method": "cross_checking_accurate"}
            if k % 3 == 0:
                pipe["validation"]["interpolated_disparity"] = "mc-cnn"
        user = {"input": {"left": {"img": fl, "disp": disp}, "right": {"img": fr}}, "pipeline": pipe}
        if k % 5 == 4:
            user["input"]["left"]["nodata"] = "NaN"
        cfg_path = str(d / "user.json")
        json.dump(user, open(cfg_path, "w"))
        out = str(d / "out")
        feat = {"bands": nb, "georef": georef is not None, "grid": grid, "validation": has_val, "confidence_steps": nconf,
                "invalid_disparity": str(pipe["disparity"]["invalid_disparity"]), "pipeline": list(pipe)}
        chk.count(("main", k, nb, grid, has_val, nconf))
        events, box, exc = traced_main(cfg_path, out)
        obs = {}
        expect_pc = "done"
        if exc is not None:
            chk.violation("total", {"stage": events[-1]["ev"] if events else "start", "exception": type(exc).__name__},
                          {"features": feat, "exception": repr(exc)[:300]}, f"pandora.main raised on a valid configuration: {exc!r}")
            continue
        obs.update(compare_rasters(out, box, georef))
        # saved configuration
        try:
            saved = json.load(open(os.path.join(out, "cfg", "config.json")))
            obs["config_is_loadable_json"] = True
        except Exception:  # pylint: disable=broad-except
            saved = None
            obs["config_is_loadable_json"] = False
        if saved is not None:
            checked = json.loads(json.dumps(box["checked"]))

            def no_indicator(pipe):
                # 'indicator' is an internal key of the confidence steps, rewritten from the step name at run time
                return {k2: {k3: v3 for k3, v3 in v2.items() if k3 != "indicator"} for k2, v2 in (pipe or {}).items()}
            obs["config_holds_completed_cfg"] = json_equal(no_indicator(saved.get("pipeline")), no_indicator(checked.get("pipeline"))) and \
                json_equal({s: {k2: v2 for k2, v2 in saved["input"][s].items() if k2 != "disp"} for s in ("left", "right")},
                           {s: {k2: v2 for k2, v2 in checked["input"][s].items() if k2 != "disp"} for s in ("left", "right")}) and \
                json_equal(saved["input"]["left"]["disp"], checked["input"]["left"]["disp"]) and \
                json_equal(saved["input"]["right"]["disp"], checked["input"]["right"]["disp"])
            obs["config_holds_margins"] = "margins" in saved and json_equal(saved["margins"], json.loads(json.dumps(box["machine"].margins.to_dict())))
            # margins decided against Margins.tla as well
            if "margins" in saved:
                t = saved["margins"]
                desc = []
                for name, c in saved["pipeline"].items():
                    kd = name.split(".")[0]
                    dd = {"name": name, "kind": kd, "method": "", "win": 0, "fsize": 0, "sig3": 0}
                    if kd == "matching_cost":
                        dd.update(method=c["matching_cost_method"], win=c["window_size"])
                    if kd == "filter":
                        dd["method"] = c["filter_method"]
                        if c["filter_method"] == "bilateral":
                            dd["sig3"] = int(3 * c["sigma_space"] + 1)
                        else:
                            dd["fsize"] = c["filter_size"]
                    desc.append(dd)
                rows_of = lambda dct: [[kk, v["left"], v["up"], v["right"], v["down"]] for kk, v in dct.items()]  # noqa: E731
                gm = t["global margins"]
                mcases.append({"id": f"mg{k}", "step": "margins", "rows": rows, "cols": cols, "stp": 1, "pipe": desc,
                               "out": {"cum": rows_of(t["cumulative margins"]), "non": rows_of(t["non-cumulative margins"]),
                                       "glob": [gm["left"], gm["up"], gm["right"], gm["down"]], "same_after_rerun": True}})
                mmeta[f"mg{k}"] = feat
            # replay of the saved configuration
            out2 = str(d / "out2")
            ev2, box2, exc2 = traced_main(os.path.join(out, "cfg", "config.json"), out2)
            obs["replay_accepted"] = exc2 is None
            if exc2 is None:
                same = list_files(out) == list_files(out2)
                for f in list_files(out):
                    if f.endswith(".tif") and same:
                        with rasterio.open(os.path.join(out, f)) as a, rasterio.open(os.path.join(out2, f)) as b:
                            same &= a.count == b.count and all(same_bits(a.read(i + 1), b.read(i + 1)) for i in range(a.count)) \
                                and list(a.descriptions) == list(b.descriptions) and a.dtypes == b.dtypes
                obs["replay_same_rasters"] = bool(same)
            else:
                feat["replay_exception"] = repr(exc2)[:200]
        tid = f"main{k}"
        traces.append({"id": tid, "events": events, "expect_pc": expect_pc, "obs": {kk: bool(vv) for kk, vv in obs.items()}})
        meta[tid] = feat
        if len(chk.samples) < 2:
            chk.sample({"features": feat, "events": [{kk: vv for kk, vv in e.items()} for e in events], "obs": obs})
        shutil.rmtree(d, ignore_errors=True)
    # refused inputs: nothing may be written
    for k in range(4 if tier == "quick" else 20):
        d = tmp / f"bad{k}"
        d.mkdir()
        L = rng.randint(0, 200, size=(8, 12)).astype(np.float32)
        fl = build.write_tif(d / "left.tif", L)
        fr = build.write_tif(d / "right.tif", L if k % 2 else np.zeros((9, 12), dtype=np.float32))
        user = {"input": {"left": {"img": fl, "disp": [2, -2] if k % 2 else [-2, 2]}, "right": {"img": fr}},
                "pipeline": {"matching_cost": {"matching_cost_method": "sad"}, "disparity": {"disparity_method": "wta"}}}
        json.dump(user, open(d / "user.json", "w"))
        out = str(d / "out")
        events, box, exc = traced_main(str(d / "user.json"), out)
        chk.count(("refused", k))
        traces.append({"id": f"bad{k}", "events": events, "expect_pc": "refused", "obs": {}})
        meta[f"bad{k}"] = {"refused_input": True}
        shutil.rmtree(d, ignore_errors=True)
    verdicts = chk.tlc_cases("MainTrace", "MainTrace.cfg", traces, label="c19", chunk=100, parallel=4)
    for tid, v in verdicts.items():
        for clause in v["failed"]:
            m = meta[tid]
            chk.violation(clause, {"clause": clause, "grid": m.get("grid"), "validation": m.get("validation")}, {"meta": m, "detail": v["detail"]},
                          f"{tid}: {clause} {v['detail']} {m}")
    verdicts = chk.tlc_cases("RuleTrace", "RuleTrace.cfg", mcases, label="c19margins", chunk=100, parallel=2) if mcases else {}
    for cid, v in verdicts.items():
        for clause in v["failed"]:
            chk.violation("saved_margins:" + clause, {"clause": "saved_margins"}, {"meta": mmeta[cid], "expected": v["detail"]}, f"{cid}: saved margins {clause}")
    shutil.rmtree(tmp, ignore_errors=True)
    chk.rule = ("end-to-end pandora.main runs on harness-written GeoTIFFs (mono / 2-band, with / without georeferencing, integer intervals / grids, "
                "0-2 confidence steps, with / without validation and filling, invalid_disparity -9999 / NaN) + replay of the saved configuration; "
                "refused inputs; distinct = distinct configurations")
    return chk.finish()
