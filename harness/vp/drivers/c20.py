"""C20 - reported margins are a pure, monotone function of the checked pipeline.

(E) TLC, MC_Margins: every accepted pipeline up to length 6 over the margin-relevant step variants: non-negativity, global =
    max(sum of cumulative, each non-cumulative), keys = margin-bearing steps, and monotonicity as an action property.
(B3) every generated pipeline is checked on a FRESH real PandoraMachine (check_pipeline_section, real step classes; identity stub
    for optimization, whose 40-pixel margin comes from the abstract class); machine.margins.to_dict() is decided by TLC against
    Margins.tla; a second fresh machine must report the same dictionary.
"""
from __future__ import annotations

import itertools

import numpy as np

from vp import build
from vp.core import Check


def gen_pipelines(rng, tier):
    out = []
    n = 260 if tier == "quick" else 4000
    cvk = ["aggregation", "optimization", "cost_volume_confidence", "semantic_segmentation"]
    dk = ["filter", "filter", "refinement", "validation", "filter"]
    for _ in range(n):
        kinds = ["matching_cost"] + [cvk[rng.randint(4)] for _ in range(rng.randint(0, 4))]
        if rng.rand() < 0.9:
            kinds += ["disparity"] + [dk[rng.randint(5)] for _ in range(rng.randint(0, 5))]
        overrides = {}
        desc = []
        for i, k in enumerate(kinds):
            d = {"kind": k, "method": "", "win": 0, "fsize": 0, "sig3": 0}
            if k == "matching_cost":
                m = ["sad", "ssd", "census", "zncc"][rng.randint(4)]
                w = int([3, 5][rng.randint(2)]) if m == "census" else int([1, 3, 5, 7, 11][rng.randint(5)])
                overrides[i] = {"matching_cost_method": m, "window_size": w}
                d.update(method=m, win=w)
            elif k == "filter":
                fm = ["median", "bilateral", "median_for_intervals"][rng.randint(3)]
                if fm == "bilateral":
                    # 3 * sigma + 1 is truncated, not rounded: fractional parts on both sides of one half
                    sg = float([0.4, 1.0, 2.0, 6.0, 0.34, 0.9, 1.2, 1.5, 2.6][rng.randint(9)])
                    overrides[i] = {"filter_method": fm, "sigma_space": sg}
                    d.update(method=fm, sig3=int(3 * sg + 1))
                else:
                    fs = int([1, 3, 5, 7][rng.randint(4)])
                    overrides[i] = {"filter_method": fm, "filter_size": fs}
                    if fm == "median_for_intervals" and rng.rand() < 0.5:
                        # regularisation works on segments of its own (ambiguity kernel): the margin is still the filter's
                        overrides[i].update(regularization=True, ambiguity_kernel_size=int([1, 5, 7][rng.randint(3)]))
                    d.update(method=fm, fsize=fs)
            elif k == "optimization" and rng.rand() < 0.5:
                # an optional geometric prior computed by the plugin itself: no input is needed, the margin is the same
                overrides[i] = {"geometric_prior": {"source": "internal"}}
            desc.append(d)
        out.append((kinds, overrides, desc))
    return out


def run(tier):
    from pandora.check_configuration import check_pipeline_section
    from pandora.state_machine import PandoraMachine
    chk = Check("C20", tier)
    build.register_stubs()
    rng = np.random.RandomState(chk.seed + 2020)
    chk.assumptions += ["matching-cost step = 1 (the only accepted value)",
                        "int(3 * sigma_space + 1) is computed by the harness from the configured sigma_space",
                        "the saved configuration's 'margins' entry is compared by the C19 check"]
    res = chk.tlc("MC_Margins", "MC_Margins.cfg" if tier == "quick" else "MC_Margins_thorough.cfg", label="margins_model", workers=8, timeout=900)
    for inv in res.invariant_violations + res.property_violations:
        chk.violation("model:" + inv, {"model": "MC_Margins", "invariant": inv}, {"tlc": res.trace_text()}, "")
    if res.temporal:
        chk.violation("model:Monotone", {"model": "MC_Margins", "invariant": "Monotone"}, {"tlc": res.trace_text()}, "")
    shapes = [(6, 8), (30, 40), (3, 50), (12, 5)]
    cases, meta = [], {}
    for n, (kinds, overrides, desc) in enumerate(gen_pipelines(rng, tier)):
        rows, cols = shapes[n % len(shapes)]
        cfg, names = build.pipeline_cfg(kinds, overrides=overrides, style=n % 4, suffix_at=((n % len(kinds),) if n % 7 == 0 else ()))
        for d, (nm, _, _) in zip(desc, names):
            d["name"] = nm
        metaL, metaR = build.make_metadata(rows, cols, disp=(-2, 2)), build.make_metadata(rows, cols, disp=None)
        outs = []
        ok = True
        for rep in range(2):
            m = PandoraMachine()
            try:
                check_pipeline_section(cfg, metaL, metaR, m)
            except Exception as exc:  # pylint: disable=broad-except
                chk.violation("check_rejected", {"exception": type(exc).__name__}, {"pipeline": [x[0] for x in names], "exception": repr(exc)[:200]},
                              "an accepted-by-construction pipeline was rejected")
                ok = False
                break
            outs.append(m.margins.to_dict())
        if not ok:
            continue
        t = outs[0]
        cid = f"g{n}"
        chk.count((tuple(kinds), str(sorted(overrides.items())), rows, cols))

        def rows_of(dct):
            return [[k, v["left"], v["up"], v["right"], v["down"]] for k, v in dct.items()]
        g = t["global margins"]
        case = {"id": cid, "step": "margins", "rows": rows, "cols": cols, "stp": 1, "pipe": desc,
                "out": {"cum": rows_of(t["cumulative margins"]), "non": rows_of(t["non-cumulative margins"]),
                        "glob": [g["left"], g["up"], g["right"], g["down"]], "same_after_rerun": outs[0] == outs[1]}}
        cases.append(case)
        meta[cid] = {"pipeline": [x[0] for x in names], "shape": [rows, cols], "reported": t}
        if len(chk.samples) < 3:
            chk.sample({"pipeline": cfg["pipeline"], "shape": [rows, cols], "margins": t})
    verdicts = chk.tlc_cases("RuleTrace", "RuleTrace.cfg", cases, label="c20", chunk=150, parallel=8)
    for cid, v in verdicts.items():
        for clause in v["failed"]:
            m = meta[cid]
            kinds = [x.split(".")[0] for x in m["pipeline"]]
            chk.violation(clause, {"clause": clause, "has_validation": "validation" in kinds,
                                   "repeated_filter": kinds.count("filter") > 1},
                          {"meta": m, "expected": v["detail"]}, f"{cid}: {clause} pipeline={m['pipeline']} shape={m['shape']}")
    chk.rule = ("random walks of the documented automaton with margin-relevant parameters (windows 1..11, median / median_for_intervals "
                "1..7, bilateral sigma_space 0.34..6.0 (fractional 3*sigma on both sides of .5), optimization stub with and without an internal geometric prior, suffix styles) on 4 image shapes, each checked on two fresh real "
                "machines; distinct = distinct (pipeline, parameters, shape)")
    return chk.finish()
