"""Binding B1: emit the transition tables the code declares as data, as a generated TLA+ module."""
from pathlib import Path


def _tla_str(x):
    return '"' + str(x).replace('\\', '\\\\').replace('"', '\\"') + '"'


def table_to_tla(table, strip_prefix=""):
    recs = []
    for t in table:
        trig = t.get("trigger", "")
        if strip_prefix:
            trig = trig[len(strip_prefix):] if trig.startswith(strip_prefix) else "?" + trig
        srcs = t.get("source", "")
        if isinstance(srcs, str):
            srcs = [srcs]
        cond = t.get("conditions", "none")
        if isinstance(cond, (list, tuple)):
            cond = ",".join(cond) if cond else "none"
        unless = t.get("unless")
        if unless:
            cond = f"{cond}|unless:{unless}"
        for src in srcs:
            recs.append("[trigger |-> %s, source |-> %s, dest |-> %s, cond |-> %s]" % (
                _tla_str(trig), _tla_str(src), _tla_str(t.get("dest", "")), _tla_str(cond)))
    return "{" + ",\n   ".join(recs) + "}"


def write_tables(dest: Path) -> Path:
    from pandora.state_machine import PandoraMachine
    txt = "---- MODULE MC_Tables ----\n"
    txt += "\\* GENERATED at check time from pandora.state_machine.PandoraMachine (binding B1); never committed\n"
    txt += "GenCheckTable == " + table_to_tla(PandoraMachine._transitions_check, "check_") + "\n"  # pylint: disable=protected-access
    txt += "GenRunTable == " + table_to_tla(PandoraMachine._transitions_run) + "\n"  # pylint: disable=protected-access
    txt += "====\n"
    dest.parent.mkdir(parents=True, exist_ok=True)
    dest.write_text(txt)
    return dest


def write_typed_tables(dest: Path) -> Path:
    """the same extraction as a typed module for Apalache (MachineInd.tla)"""
    from pandora.state_machine import PandoraMachine
    ann = "\\* @type: Set({trigger: Str, source: Str, dest: Str, cond: Str});\n"
    txt = "---- MODULE MachineIndTables ----\n\\* GENERATED at check time (binding B1)\n"
    txt += ann + "TypedCheckTable == " + table_to_tla(PandoraMachine._transitions_check, "check_") + "\n"  # pylint: disable=protected-access
    txt += ann + "TypedRunTable == " + table_to_tla(PandoraMachine._transitions_run) + "\n====\n"  # pylint: disable=protected-access
    dest.parent.mkdir(parents=True, exist_ok=True)
    dest.write_text(txt)
    return dest
