"""Source-level footprints of the numba prange kernels (C18): the kernel's Python function (.py_func) is executed with the
module's `prange` replaced by a recording iterator and the arrays replaced by recording proxies; arrays allocated BEFORE
the parallel loop (through the module's np) are shared and recorded too, arrays allocated inside an iteration are private.
numba parallelises the outermost prange: the iteration identity is the outer index."""
from __future__ import annotations

import numpy as np


class Recorder:
    def __init__(self):
        self.cur = None          # outer iteration index or None
        self.depth = 0
        self.loops = 0           # number of outermost parallel loops started (two consecutive loops are separated by a barrier)
        self.iters = {}          # iteration -> {"r": set, "w": set}
        self.base = {}           # array name -> offset of its first cell
        self.next_cell = 0

    def register(self, name, size):
        self.base[name] = self.next_cell
        self.next_cell += size + 1

    def log(self, name, flat_ids, mode):
        if self.cur is None:
            return
        d = self.iters.setdefault(self.cur, {"r": set(), "w": set()})
        off = self.base[name]
        d[mode].update(int(off + i) for i in np.ravel(flat_ids))

    def prange(self, *args):
        rec = self

        def gen():
            outer = rec.depth == 0
            rec.depth += 1
            if outer:
                rec.loops += 1
            loop_no = rec.loops
            try:
                for i in range(*args):
                    if outer:
                        rec.cur = (loop_no, i)
                    yield i
            finally:
                rec.depth -= 1
                if outer:
                    rec.cur = None
        return gen()


class Rec:
    """recording proxy of one shared array"""

    def __init__(self, arr, name, rec):
        self._a = arr
        self._name = name
        self._rec = rec
        self._ids = np.arange(arr.size).reshape(arr.shape)
        rec.register(name, arr.size)

    shape = property(lambda self: self._a.shape)
    dtype = property(lambda self: self._a.dtype)
    ndim = property(lambda self: self._a.ndim)
    size = property(lambda self: self._a.size)

    def __len__(self):
        return len(self._a)

    def _unwrap(self, idx):
        if isinstance(idx, tuple):
            return tuple(i._a if isinstance(i, Rec) else i for i in idx)
        return idx._a if isinstance(idx, Rec) else idx

    def __getitem__(self, idx):
        idx = self._unwrap(idx)
        self._rec.log(self._name, self._ids[idx], "r")
        out = self._a[idx]
        return out.copy() if isinstance(out, np.ndarray) else out      # views would escape the recording

    def __setitem__(self, idx, val):
        idx = self._unwrap(idx)
        self._rec.log(self._name, self._ids[idx], "w")
        self._a[idx] = val._a if isinstance(val, Rec) else val

    def __array__(self, dtype=None, copy=None):
        self._rec.log(self._name, self._ids, "r")
        return self._a if dtype is None else self._a.astype(dtype)

    def copy(self):
        self._rec.log(self._name, self._ids, "r")
        return self._a.copy()

    def __getattr__(self, item):
        return getattr(self._a, item)


def _binop(name):
    import operator
    op = getattr(operator, name)

    def f(self, other):
        other = np.asarray(other) if isinstance(other, Rec) else other      # (recorded as a read of the whole array)
        return op(np.asarray(self), other)

    def rf(self, other):
        return op(other, np.asarray(self))
    return f, rf


for _n in ("add", "sub", "mul", "truediv", "floordiv", "mod", "pow", "lt", "le", "gt", "ge", "eq", "ne", "and_", "or_"):
    _f, _rf = _binop(_n)
    _d = _n.rstrip("_")
    setattr(Rec, f"__{_d}__", _f)
    if _n not in ("lt", "le", "gt", "ge", "eq", "ne"):
        setattr(Rec, f"__r{_d}__", _rf)
Rec.__hash__ = object.__hash__
Rec.__neg__ = lambda self: -np.asarray(self)
Rec.__abs__ = lambda self: abs(np.asarray(self))


class NpProxy:
    """stand-in for the module's np: arrays allocated outside an iteration become shared recording proxies"""
    ALLOC = {"zeros", "ones", "full", "empty", "full_like", "zeros_like", "copy"}

    def __init__(self, rec):
        self._rec = rec
        self._n = 0

    def __getattr__(self, name):
        real = getattr(np, name)
        if name in self.ALLOC:
            rec = self._rec

            def alloc(*a, **kw):
                a = tuple(x._a if isinstance(x, Rec) else x for x in a)
                out = real(*a, **kw)
                if rec.cur is None and isinstance(out, np.ndarray) and out.ndim >= 1:
                    self._n += 1
                    return Rec(out, f"alloc{self._n}", rec)
                return out
            return alloc
        if callable(real) and not isinstance(real, type):
            def call(*a, **kw):
                a = tuple(np.asarray(x) if isinstance(x, Rec) else x for x in a)
                return real(*a, **kw)
            return call
        return real


def record(module, func, args, array_positions):
    """executes func.py_func(*args) with recording; returns list of {"r": [...], "w": [...]} per outer iteration"""
    rec = Recorder()
    wrapped = list(args)
    for i in array_positions:
        wrapped[i] = Rec(np.array(args[i], copy=True), f"arg{i}", rec)
    saved = {}
    for nm, val in (("prange", rec.prange), ("np", NpProxy(rec))):
        if hasattr(module, nm):
            saved[nm] = getattr(module, nm)
            setattr(module, nm, val)
    try:
        pyf = getattr(func, "py_func", func)
        pyf(*wrapped)
    finally:
        for nm, val in saved.items():
            setattr(module, nm, val)
    # one footprint per outermost parallel loop (loops run one after the other)
    loops = sorted({k[0] for k in rec.iters})
    return [[{"r": sorted(rec.iters[k]["r"]), "w": sorted(rec.iters[k]["w"])} for k in sorted(rec.iters) if k[0] == ln] for ln in loops]
