"""Entry point: python -m vp.main <ID> <quick|thorough>"""
import importlib
import os
import sys

import logging

from vp.core import main_wrapper

logging.raiseExceptions = False
logging.getLogger().setLevel(logging.CRITICAL)
logging.getLogger("transitions").setLevel(logging.ERROR)
logging.getLogger("transitions.core").setLevel(logging.ERROR)


def main():
    if len(sys.argv) < 3:
        print("usage: check <ID> <quick|thorough>", file=sys.stderr)
        sys.exit(2)
    pid, tier = sys.argv[1], os.environ.get("VERIF_TIER") or sys.argv[2]
    if tier not in ("quick", "thorough"):
        tier = sys.argv[2]
    try:
        mod = importlib.import_module(f"vp.drivers.{pid.lower()}")
    except ImportError as e:
        import traceback
        traceback.print_exc()
        print(f"MACHINERY-FAILURE property={pid}: no driver ({e})", file=sys.stderr)
        sys.exit(2)
    main_wrapper(mod.run, pid, tier)


if __name__ == "__main__":
    main()
