"""Mutation screening of the checks (development tool, not a registered check).

For one property it generates small token-level mutants of the code the property is anchored in (the `where` line ranges of
properties.jsonl), applies each one in a scratch worktree OUTSIDE /repo and /verif, runs the property's check against that
worktree (VP_RUN_REPO) from a scratch copy of /verif, and - for the mutants the check does not report - runs the repository's
test-suite, so that the survivors that matter (compile, pass the tests, not reported) can be reviewed by hand: each is either an
equivalent mutant or a gap of the check.  Results: seeded/mutation/<ID>.json.

usage:  python -m vp.mutscreen gen  <ID> [--n N] [--seed S]
        python -m vp.mutscreen run  <ID> [--workers K] [--tier quick]
        python -m vp.mutscreen tests <ID> [--workers K]
        python -m vp.mutscreen report [<ID> ...]
"""
from __future__ import annotations

import argparse
import io
import json
import os
import random
import re
import shutil
import subprocess
import sys
import tokenize
from concurrent.futures import ThreadPoolExecutor

V = os.path.abspath(os.path.join(os.path.dirname(__file__), "..", ".."))
SCR = os.environ.get("VP_MUT_SCRATCH", "/tmp/mut")
OUT = os.path.join(V, "seeded", "mutation")

SWAP_OP = {"<": ["<="], "<=": ["<"], ">": [">="], ">=": [">"], "==": ["!="], "!=": ["=="],
           "+": ["-"], "-": ["+"], "+=": ["-="], "-=": ["+="], "&": ["|"], "|": ["&"], "|=": ["&="], "&=": ["|="],
           "//": ["/"], "<<": [">>"], ">>": ["<<"]}
SWAP_NAME = {"and": ["or"], "or": ["and"], "min": ["max"], "max": ["min"], "nanmin": ["nanmax"], "nanmax": ["nanmin"],
             "argmin": ["argmax"], "argmax": ["argmin"], "nanargmin": ["nanargmax"], "nanargmax": ["nanargmin"],
             "True": ["False"], "False": ["True"], "floor": ["ceil"], "ceil": ["floor"], "left": ["right"],
             "right": ["left"], "any": ["all"], "all": ["any"], "minimum": ["maximum"], "maximum": ["minimum"],
             "row": ["col"], "col": ["row"], "isnan": ["isinf"], "nansum": ["sum"], "nanmean": ["mean"]}
SKIP_LINE = re.compile(r"^\s*(@|def |class |logging\.|raise |import |from |assert |\"\"\"|#|warnings\.)")


def properties():
    return {json.loads(l)["id"]: json.loads(l) for l in open(os.path.join(V, "properties.jsonl"))}


def ranges(prop):
    """file -> list of (lo, hi) line ranges from the anchors (whole file when an anchored file has no range)"""
    res = {}
    for m in prop["anchors"].get("mechanism", []):
        w = m.get("where", "")
        for part in re.split(r"[;,]\s*(?=pandora/)", w):
            mm = re.match(r"(pandora/[\w/]+\.py)(?::(\d+)(?:-(\d+))?)?", part.strip())
            if not mm:
                continue
            f, lo, hi = mm.group(1), mm.group(2), mm.group(3)
            if lo:
                res.setdefault(f, []).append((int(lo), int(hi or lo)))
            else:
                res.setdefault(f, []).append((1, 10 ** 6))
    for f in prop["anchors"].get("files", []):
        if f.endswith(".py") and f not in res:
            res[f] = [(1, 10 ** 6)]
    return res


def candidates(repo, f, rngs):
    """token-level mutation sites of file f inside the line ranges"""
    src = open(os.path.join(repo, f)).read()
    lines = src.split("\n")
    toks = list(tokenize.generate_tokens(io.StringIO(src).readline))
    out = []
    depth_sig = 0
    prev = None
    in_def = False
    for i, t in enumerate(toks):
        (r, c), (r2, c2) = t.start, t.end
        line = lines[r - 1] if r - 1 < len(lines) else ""
        if t.type == tokenize.NAME and t.string in ("def", "class"):
            in_def = True; depth_sig = 0
        if in_def:
            if t.string in "([{": depth_sig += 1
            if t.string in ")]}": depth_sig -= 1
            if t.string == ":" and depth_sig == 0:
                in_def = False
            prev = t
            continue
        ok_line = any(lo - 3 <= r <= hi + 3 for lo, hi in rngs) and not SKIP_LINE.match(line) and r == r2
        if ok_line:
            alts = []
            if t.type == tokenize.OP and t.string in SWAP_OP:
                binary = prev is not None and (prev.type in (tokenize.NAME, tokenize.NUMBER) and prev.string not in
                                               ("return", "in", "and", "or", "not", "if", "else", "lambda")
                                               or prev.string in (")", "]"))
                if t.string not in ("+", "-") or binary:
                    alts = SWAP_OP[t.string]
                    # `-> type` / keyword defaults are in signatures (skipped); `|` in annotations is skipped with them
            elif t.type == tokenize.NAME and t.string in SWAP_NAME:
                nxt = toks[i + 1].string if i + 1 < len(toks) else ""
                if nxt != "=" or t.string in ("True", "False"):       # not a keyword-argument name
                    alts = SWAP_NAME[t.string]
            elif t.type == tokenize.NAME and t.string == "not":
                alts = [""]
            elif t.type == tokenize.NUMBER and re.fullmatch(r"\d+", t.string) and int(t.string) < 1000:
                n = int(t.string)
                alts = [str(n + 1)] + ([str(n - 1)] if n > 0 else [])
            for a in alts:
                out.append({"file": f, "line": r, "col": c, "end": c2, "old": t.string, "new": a, "text": line.strip()[:160]})
        if t.type not in (tokenize.NL, tokenize.NEWLINE, tokenize.COMMENT, tokenize.INDENT, tokenize.DEDENT):
            prev = t
    return out


def mutate_text(src, m):
    lines = src.split("\n")
    l = lines[m["line"] - 1]
    assert l[m["col"]:m["end"]] == m["old"], (l, m)
    new = m["new"]
    lines[m["line"] - 1] = l[:m["col"]] + new + (l[m["end"]:].lstrip() if new == "" else l[m["end"]:])
    return "\n".join(lines)


def cmd_gen(a):
    props = properties()
    rr = ranges(props[a.id])
    cands = []
    for f, rn in sorted(rr.items()):
        if os.path.exists(os.path.join("/repo", f)):
            cands += candidates("/repo", f, rn)
    rnd = random.Random(a.seed)
    rnd.shuffle(cands)
    # spread over distinct lines first
    seen, pick, rest = set(), [], []
    for c in cands:
        k = (c["file"], c["line"])
        (rest if k in seen else pick).append(c)
        seen.add(k)
    pick = (pick + rest)[:a.n]
    good = []
    for c in pick:
        try:
            compile(mutate_text(open(os.path.join("/repo", c["file"])).read(), c), c["file"], "exec")
            good.append(c)
        except SyntaxError:
            pass
    os.makedirs(OUT, exist_ok=True)
    path = os.path.join(OUT, a.id + ".json")
    old = json.load(open(path)) if os.path.exists(path) else {"property": a.id, "mutants": []}
    have = {(m["file"], m["line"], m["col"], m["new"]) for m in old["mutants"]}
    for c in good:
        if (c["file"], c["line"], c["col"], c["new"]) not in have:
            c["id"] = "%s-m%03d" % (a.id, len(old["mutants"]))
            old["mutants"].append(c)
    old["repo_head"] = subprocess.run(["git", "-C", "/repo", "rev-parse", "--short", "HEAD"], capture_output=True, text=True).stdout.strip()
    json.dump(old, open(path, "w"), indent=1)
    print("%s: %d candidate sites in %d files, %d mutants listed" % (a.id, len(cands), len(rr), len(old["mutants"])))


def worker_dirs(k):
    w = os.path.join(SCR, "w%d" % k)
    v = os.path.join(SCR, "v%d" % k)
    if not os.path.exists(w):
        os.makedirs(SCR, exist_ok=True)
        subprocess.run(["git", "-C", "/repo", "worktree", "add", "--detach", "-q", w, "HEAD"], check=True)
    subprocess.run(["git", "-C", w, "checkout", "-q", "--", "."], check=True)
    subprocess.run(["rsync", "-a", "--delete", "--exclude=.git", "--exclude=.work", "--exclude=seeded", "--exclude=.cache",
                    "--exclude=evidence", V + "/", v + "/"], check=True)
    os.makedirs(os.path.join(v, "evidence"), exist_ok=True)
    return w, v


def apply_mut(w, m):
    p = os.path.join(w, m["file"])
    src = open(p).read()
    new = mutate_text(src, m)
    with open(p, "w") as fh:
        fh.write(new)


def revert(w):
    subprocess.run(["git", "-C", w, "checkout", "-q", "--", "."], check=True)


def run_one(k, m, tier, pid):
    w, v = os.path.join(SCR, "w%d" % k), os.path.join(SCR, "v%d" % k)
    apply_mut(w, m)
    try:
        env = dict(os.environ, VP_RUN_REPO=w, VERIF_SEED="0")
        try:
            p = subprocess.run([os.path.join(v, "bin", "check"), pid, tier], capture_output=True, text=True, env=env, timeout=1500)
            rc, out = p.returncode, p.stdout + p.stderr
        except subprocess.TimeoutExpired:
            rc, out = 124, ""
        viol = sorted(set(re.findall(r"^VIOLATION property=\S+", out, re.M)))
        clauses = []
        ev = os.path.join(v, "evidence", pid + ".json")
        if rc == 1 and os.path.exists(ev):
            try:
                e = json.load(open(ev))
                clauses = sorted({x.get("clause", "?") for x in e.get("violations", [])})[:8] if isinstance(e.get("violations"), list) else []
            except Exception:
                pass
        return {"check_rc": rc, "check": "killed" if rc == 1 else ("crash" if rc not in (0, 1) else "survived"),
                "clauses": clauses, "tail": out.strip().split("\n")[-3:] if rc not in (0, 1) else []}
    finally:
        revert(w)


def cmd_run(a):
    path = os.path.join(OUT, a.id + ".json")
    d = json.load(open(path))
    todo = [m for m in d["mutants"] if "check" not in m or a.redo]
    for k in range(a.workers):
        worker_dirs(k)
    import queue
    q = queue.Queue()
    for k in range(a.workers):
        q.put(k)

    def job(m):
        k = q.get()
        try:
            r = run_one(k, m, a.tier, a.id)
        finally:
            q.put(k)
        m.update(r)
        print(m["id"], m["file"], m["line"], repr(m["old"]), "->", repr(m["new"]), r["check"], r["clauses"][:3], flush=True)
        json.dump(d, open(path, "w"), indent=1)
    with ThreadPoolExecutor(a.workers) as ex:
        list(ex.map(job, todo))
    json.dump(d, open(path, "w"), indent=1)


def tests_one(k, m):
    w = os.path.join(SCR, "w%d" % k)
    apply_mut(w, m)
    try:
        env = {kk: vv for kk, vv in os.environ.items() if kk != "PANDORA_VERIF"}
        env["PYTHONPATH"] = w
        p = subprocess.run(["/venv/bin/python", "-m", "pytest", "-x", "-q", "-p", "no:cacheprovider", "--timeout=900",
                            "--deselect", "tests/test_notebooks.py", "tests"], cwd=w, capture_output=True, text=True, env=env, timeout=3000)
        last = p.stdout.strip().split("\n")[-1] if p.stdout.strip() else ""
        failed = re.findall(r"^FAILED (\S+)", p.stdout, re.M)
        base_fail = [f for f in failed if "test_dataset_image" in f]
        # -x stops at the first failure: if that is the baseline failure, rerun without -x
        if failed and len(base_fail) == len(failed):
            p = subprocess.run(["/venv/bin/python", "-m", "pytest", "-q", "-p", "no:cacheprovider", "--timeout=900",
                                "--deselect", "tests/test_notebooks.py", "--deselect",
                                "tests/test_pandora.py::TestPandora::test_dataset_image", "-x", "tests"],
                               cwd=w, capture_output=True, text=True, env=env, timeout=3000)
            last = p.stdout.strip().split("\n")[-1] if p.stdout.strip() else ""
            failed = re.findall(r"^FAILED (\S+)", p.stdout, re.M)
        return {"tests": "pass" if p.returncode == 0 else "fail", "tests_last": last[-160:], "tests_failed": failed[:3]}
    finally:
        revert(w)
        subprocess.run(["git", "-C", w, "clean", "-fdq"], check=False)


def cmd_tests(a):
    path = os.path.join(OUT, a.id + ".json")
    d = json.load(open(path))
    todo = [m for m in d["mutants"] if m.get("check") == "survived" and "tests" not in m]
    for k in range(a.workers):
        worker_dirs(k)
    import queue
    q = queue.Queue()
    for k in range(a.workers):
        q.put(k)

    def job(m):
        k = q.get()
        try:
            r = tests_one(k, m)
        finally:
            q.put(k)
        m.update(r)
        print(m["id"], m["file"], m["line"], repr(m["old"]), "->", repr(m["new"]), "tests:", r["tests"], r["tests_failed"][:1], flush=True)
        json.dump(d, open(path, "w"), indent=1)
    with ThreadPoolExecutor(a.workers) as ex:
        list(ex.map(job, todo))
    json.dump(d, open(path, "w"), indent=1)


def cmd_report(a):
    ids = a.ids or sorted(f[:-5] for f in os.listdir(OUT) if f.endswith(".json"))
    tot = {}
    for pid in ids:
        d = json.load(open(os.path.join(OUT, pid + ".json")))
        c = {"n": 0, "killed": 0, "crash": 0, "survived": 0, "surv_tests_fail": 0, "surv_tests_pass": 0, "reviewed": 0}
        for m in d["mutants"]:
            if "check" not in m:
                continue
            c["n"] += 1
            c[m["check"]] += 1
            if m["check"] == "survived" and "tests" in m:
                c["surv_tests_" + m["tests"]] += 1
                if m["tests"] == "pass" and m.get("review"):
                    c["reviewed"] += 1
        print(pid, c)
        if a.verbose:
            for m in d["mutants"]:
                if m.get("check") == "survived" and m.get("tests") == "pass":
                    print("   ", m["id"], m["file"], m["line"], repr(m["old"]), "->", repr(m["new"]), "|", m["text"][:100], "|", "cross=" + json.dumps(m.get("cross", {})), "|", m.get("review", "UNREVIEWED"))


def cmd_patch(a):
    """run a property's check against a scratch worktree with a patch applied (nothing touches /repo)"""
    k = a.worker
    w, v = worker_dirs(k)
    subprocess.run(["git", "-C", w, "apply", os.path.abspath(a.patch)], check=True)
    try:
        rcs = {}
        for pid in a.ids.split(","):
            env = dict(os.environ, VP_RUN_REPO=w, VERIF_SEED=os.environ.get("VERIF_SEED", "0"))
            p = subprocess.run([os.path.join(v, "bin", "check"), pid, a.tier], capture_output=True, text=True, env=env)
            out = p.stdout + p.stderr
            for l in out.split("\n"):
                if re.match(r"^(VIOLATION|KNOWN-FINDING|MACHINERY|\[|  clause=)", l):
                    print(l[:300])
            print("patchtest: %s %s exit=%d" % (pid, a.tier, p.returncode), flush=True)
            rcs[pid] = p.returncode
        sys.exit(0 if any(r == 1 for r in rcs.values()) else 3)
    finally:
        revert(w)
        subprocess.run(["git", "-C", w, "clean", "-fdq"], check=False)


def cmd_cross(a):
    """survivors of <ID>'s own check that pass the tests: run the checks of the OTHER properties anchored in the mutated file"""
    path = os.path.join(OUT, a.id + ".json")
    d = json.load(open(path))
    props = properties()
    todo = [m for m in d["mutants"] if m.get("check") == "survived" and m.get("tests") == "pass" and ("cross" not in m or a.redo)]
    for k in range(a.workers):
        worker_dirs(k + 4)          # (workers 0-3 belong to run / tests)
    import queue
    q = queue.Queue()
    for k in range(a.workers):
        q.put(k + 4)

    def job(m):
        others = [pid for pid, pr in sorted(props.items()) if pid != a.id and m["file"] in pr["anchors"].get("files", [])]
        if a.only:
            others = [o for o in others if o in a.only.split(",")]
        k = q.get()
        try:
            res = {}
            for pid in others:
                r = run_one(k, m, "quick", pid)
                res[pid] = r["check"]
                if r["check"] == "killed" and not a.all:
                    break
        finally:
            q.put(k)
        m["cross"] = res
        print(m["id"], m["file"], m["line"], repr(m["old"]), "->", repr(m["new"]), "cross:", res, flush=True)
        json.dump(d, open(path, "w"), indent=1)
    with ThreadPoolExecutor(a.workers) as ex:
        list(ex.map(job, todo))
    json.dump(d, open(path, "w"), indent=1)


def cmd_review(a):
    """record the hand review of surviving mutants: review <ID> <mutant-id[,mutant-id...]> <verdict text>"""
    path = os.path.join(OUT, a.id + ".json")
    d = json.load(open(path))
    ids = set(a.mutants.split(","))
    n = 0
    for m in d["mutants"]:
        if m["id"] in ids or m["id"].split("-")[1] in ids:
            m["review"] = a.text
            n += 1
    json.dump(d, open(path, "w"), indent=1)
    print("reviewed", n)


EXTRA = {"C13-A": ["C05"], "C08-A": ["C01"], "C09-A": ["C02"], "C09-B": ["C06"], "C13-D": ["C10"], "C14-C": ["C07", "C08", "C01"], "C07-C": ["C08", "C01"],
         "C08-C": ["C15"], "C09-C": ["C14"], "C09-D": ["C02"], "C12-D": ["C10"], "C05-E": ["C01"], "C09-F": ["C03"], "C13-E": ["C18"], "C18-E": ["C15"],
         "C01-I": ["C05"], "C14-J": ["C18"], "C13-J": ["C10"], "C13-L": ["C16"], "C13-K": ["C11"], "C09-K": ["C06"]}


def cmd_matrix(a):
    """every seeded change against its property's check (and the extra ones listed), in scratch worktrees, in parallel; writes
    seeded/detection.json (same content as bin/seedmatrix, which does it one by one on /repo itself)"""
    sdir = os.path.join(V, "seeded")
    ids = sorted(d for d in os.listdir(sdir) if os.path.exists(os.path.join(sdir, d, "patch.diff")))
    if a.only:
        ids = [i for i in ids if i in a.only.split(",") or i.split("-")[0] in a.only.split(",")]
    jobs = [(sid, chk) for sid in ids for chk in [sid.split("-")[0]] + EXTRA.get(sid, [])]
    base = 10
    for k in range(a.workers):
        worker_dirs(base + k)
    import queue
    q = queue.Queue()
    for k in range(a.workers):
        q.put(base + k)
    results = {}

    def job(j):
        sid, chk = j
        k = q.get()
        w, v = os.path.join(SCR, "w%d" % k), os.path.join(SCR, "v%d" % k)
        try:
            subprocess.run(["git", "-C", w, "checkout", "-q", "--", "."], check=True)
            ap = subprocess.run(["git", "-C", w, "apply", os.path.join(sdir, sid, "patch.diff")], capture_output=True, text=True)
            if ap.returncode != 0:
                res = {"check": chk, "tier": a.tier, "exit": 2, "violation_lines": 0, "note": "patch does not apply"}
            else:
                env = dict(os.environ, VP_RUN_REPO=w, VERIF_SEED="0")
                p = subprocess.run([os.path.join(v, "bin", "check"), chk, a.tier], capture_output=True, text=True, env=env)
                out = p.stdout + p.stderr
                res = {"check": chk, "tier": a.tier, "exit": p.returncode, "violation_lines": len(re.findall(r"^VIOLATION ", out, re.M))}
        finally:
            revert(w)
            subprocess.run(["git", "-C", w, "clean", "-fdq"], check=False)
            q.put(k)
        results.setdefault(sid, []).append(res)
        print(sid, res, flush=True)
    with ThreadPoolExecutor(a.workers) as ex:
        list(ex.map(job, jobs))
    path = os.path.join(sdir, "detection.json")
    old = json.load(open(path)) if (a.only and os.path.exists(path)) else {}
    for sid in results:
        order = [sid.split("-")[0]] + EXTRA.get(sid, [])
        old[sid] = sorted(results[sid], key=lambda r: order.index(r["check"]))
    json.dump(dict(sorted(old.items())), open(path, "w"), indent=1)
    missed = [sid for sid, rs in sorted(old.items()) if not any(r["exit"] == 1 for r in rs)]
    print("seeds:", len(old), "not caught:", missed)


def cmd_clean(a):
    for k in range(32):
        w = os.path.join(SCR, "w%d" % k)
        if os.path.exists(w):
            subprocess.run(["git", "-C", "/repo", "worktree", "remove", "--force", w])
    shutil.rmtree(SCR, ignore_errors=True)
    subprocess.run(["git", "-C", "/repo", "worktree", "prune"])


def main():
    ap = argparse.ArgumentParser()
    sub = ap.add_subparsers(dest="cmd", required=True)
    g = sub.add_parser("gen"); g.add_argument("id"); g.add_argument("--n", type=int, default=30); g.add_argument("--seed", type=int, default=0)
    r = sub.add_parser("run"); r.add_argument("id"); r.add_argument("--workers", type=int, default=4); r.add_argument("--tier", default="quick"); r.add_argument("--redo", action="store_true")
    t = sub.add_parser("tests"); t.add_argument("id"); t.add_argument("--workers", type=int, default=4)
    p = sub.add_parser("report"); p.add_argument("ids", nargs="*"); p.add_argument("-v", "--verbose", action="store_true")
    pp = sub.add_parser("patch"); pp.add_argument("patch"); pp.add_argument("ids"); pp.add_argument("tier", nargs="?", default="quick"); pp.add_argument("--worker", type=int, default=9)
    cr = sub.add_parser("cross"); cr.add_argument("id"); cr.add_argument("--workers", type=int, default=4); cr.add_argument("--redo", action="store_true"); cr.add_argument("--all", action="store_true"); cr.add_argument("--only", default="")
    rv = sub.add_parser("review"); rv.add_argument("id"); rv.add_argument("mutants"); rv.add_argument("text")
    mx = sub.add_parser("matrix"); mx.add_argument("--workers", type=int, default=4); mx.add_argument("--tier", default="quick"); mx.add_argument("--only", default="")
    sub.add_parser("clean")
    a = ap.parse_args()
    {"gen": cmd_gen, "run": cmd_run, "tests": cmd_tests, "report": cmd_report, "clean": cmd_clean, "patch": cmd_patch, "review": cmd_review, "cross": cmd_cross, "matrix": cmd_matrix}[a.cmd](a)


if __name__ == "__main__":
    main()
