"""Projection of real Pandora objects onto the abstract values of the specification (one set of functions, used
for every trace).  TLC has 32-bit integers and no reals: see DESIGN.md section 3.4 for the encodings."""
from __future__ import annotations

from fractions import Fraction

import numpy as np

NAN = 1000000007          # sentinel for NaN (spec: MatchingCost!NaN)
INEXACT = 1000000009      # a float that is not the exact scaled integer the encoding demands (never produced by the spec)


def enc_scaled(a, scale=1, tol=1e-4):
    """float array -> nested lists of ints: round(a*scale) where that is exact within tol, NAN for NaN,
    INEXACT otherwise (the specification never produces INEXACT, so it is reported, not hidden)."""
    a = np.asarray(a, dtype=np.float64)
    v = a * scale
    r = np.rint(v)
    out = np.where(np.isnan(a), NAN, np.where(np.abs(v - r) <= tol, r, INEXACT))
    out = np.where(np.isinf(a), INEXACT, out)
    return out.astype(np.int64).tolist()


def enc_rank(a):
    """Order-preserving dense rank encoding of arbitrary floats (NaN -> NAN). Commutes with every comparison."""
    a = np.asarray(a, dtype=np.float64)
    flat = a[~np.isnan(a)]
    uniq = np.unique(flat)
    out = np.full(a.shape, NAN, dtype=np.int64)
    idx = np.searchsorted(uniq, a[~np.isnan(a)])
    out[~np.isnan(a)] = idx
    return out.tolist()


def enc_value(x, scale=1):
    """one scalar (e.g. invalid_disparity)"""
    if x is None:
        return NAN
    x = float(x)
    if np.isnan(x):
        return NAN
    v = x * scale
    return int(round(v)) if abs(v - round(v)) < 1e-6 else INEXACT


def enc_int(a):
    return np.asarray(a).astype(np.int64).tolist()


def enc_frac(x, maxden=256, tol=1e-5):
    """float -> [num, den] (den > 0) if within tol of a small fraction, else [INEXACT, 1]; NaN -> [NAN, 1]."""
    x = float(x)
    if np.isnan(x):
        return [NAN, 1]
    if np.isinf(x):
        return [INEXACT, 1]
    f = Fraction(x).limit_denominator(maxden)
    if abs(float(f) - x) <= tol * max(1.0, abs(x)):
        return [f.numerator, f.denominator]
    return [INEXACT, 1]


def same_bits(a, b):
    """bit-exact equality of two float/int arrays, NaN equal to NaN"""
    a, b = np.asarray(a), np.asarray(b)
    if a.shape != b.shape or a.dtype != b.dtype:
        return False
    if a.dtype.kind == "f":
        return bool(np.array_equal(a, b, equal_nan=True))
    return bool(np.array_equal(a, b))


def conf_snapshot(ds):
    """deep copy of the confidence bands of a dataset (names and values) for frame conditions"""
    if ds is None or "confidence_measure" not in ds.data_vars:
        return None
    return (list(map(str, ds.coords["indicator"].data)), ds["confidence_measure"].data.copy())


def conf_same(snap, ds):
    now = conf_snapshot(ds)
    if snap is None or now is None:
        return snap is None and now is None
    return snap[0] == now[0] and same_bits(snap[1], now[1])


def enc_rank_joint(inp, out, snap=0.0):
    """Joint dense rank encoding of an input array and an output array: input values get even ranks 2k (k = index among
    the sorted distinct finite inputs); an output equal to an input (within `snap` relative tolerance) gets that input's
    rank, an output strictly between two consecutive inputs the odd rank in between, below all inputs -1, above 2n-1.
    NaN -> NAN. Commutes with every order statistic."""
    inp = np.asarray(inp, dtype=np.float64)
    out = np.asarray(out, dtype=np.float64)
    fin = inp[np.isfinite(inp)]
    uniq = np.unique(fin)

    def enc(a, is_out):
        res = np.full(a.shape, NAN, dtype=np.int64)
        it = np.nditer(a, flags=["multi_index"])
        for v in it:
            v = float(v)
            if np.isnan(v):
                continue
            if len(uniq) == 0:
                res[it.multi_index] = INEXACT
                continue
            i = int(np.searchsorted(uniq, v))
            cand = []
            if i < len(uniq):
                cand.append(i)
            if i > 0:
                cand.append(i - 1)
            hit = None
            for j in cand:
                if uniq[j] == v or (is_out and abs(uniq[j] - v) <= snap * max(1.0, abs(v))):
                    hit = j
                    break
            if hit is not None:
                res[it.multi_index] = 2 * hit
            else:
                res[it.multi_index] = 2 * i - 1     # strictly between uniq[i-1] and uniq[i]
        return res.tolist()
    return enc(inp, False), enc(out, True)


def enc_joint(arrays):
    """Joint dense rank encoding of several float arrays: equal values <=> equal integers across all arrays, NaN -> NAN,
    +inf / -inf keep their order. Used for relations that demand bit-for-bit equality of two executions."""
    flat = np.concatenate([np.asarray(a, dtype=np.float64).ravel() for a in arrays]) if arrays else np.array([])
    uniq = np.unique(flat[~np.isnan(flat)])
    out = []
    for a in arrays:
        a = np.asarray(a, dtype=np.float64)
        res = np.full(a.shape, NAN, dtype=np.int64)
        m = ~np.isnan(a)
        res[m] = np.searchsorted(uniq, a[m])
        out.append(res.tolist())
    return out
