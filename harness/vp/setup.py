"""setup: syntax-check every specification module with SANY and warm numba's on-disk cache."""
import shutil
import subprocess
import sys
from pathlib import Path

from vp.core import SPEC, TLA_CP, WORK
from vp.extract import write_tables, write_typed_tables


def main():
    d = WORK / "setup"
    if d.exists():
        shutil.rmtree(d)
    d.mkdir(parents=True)
    for f in SPEC.glob("*.tla"):
        shutil.copy(f, d / f.name)
    write_tables(d / "MC_Tables.tla")
    write_typed_tables(d / "MachineIndTables.tla")
    bad = 0
    for f in sorted(d.glob("*.tla")):
        p = subprocess.run(["java", "-cp", TLA_CP, "tla2sany.SANY", f.name], cwd=d, capture_output=True, text=True)
        if p.returncode != 0 or "*** Errors" in p.stdout or "Fatal errors" in p.stdout or "Parse Error" in p.stdout:
            bad += 1
            print("SANY FAILED:", f.name)
            print("\n".join(p.stdout.splitlines()[-15:]))
    shutil.rmtree(d, ignore_errors=True)
    # warm the numba cache with one tiny pipeline
    import numpy as np
    import pandora
    from pandora.state_machine import PandoraMachine
    from vp import build
    rng = np.random.RandomState(0)
    left = rng.randint(0, 9, (6, 8)).astype(np.float32)
    L = build.make_image(left, disp=(-1, 1))
    R = build.make_image(np.roll(left, 1, 1))
    cfg = {"pipeline": {"matching_cost": {"matching_cost_method": "census", "window_size": 3, "subpix": 1},
                        "aggregation": {"aggregation_method": "cbca"},
                        "cost_volume_confidence": {"confidence_method": "ambiguity"},
                        "disparity": {"disparity_method": "wta", "invalid_disparity": -9999},
                        "refinement": {"refinement_method": "vfit"},
                        "filter": {"filter_method": "median", "filter_size": 3},
                        "validation": {"validation_method": "cross_checking_accurate"}}}
    pandora.run(PandoraMachine(), L, R, cfg)
    print("setup ok" if not bad else f"setup: {bad} module(s) failed SANY")
    sys.exit(1 if bad else 0)


if __name__ == "__main__":
    main()
