"""External tracer (binding B3): wraps PandoraMachine callbacks and the entry methods of the step classes from
outside the repository (monkey-patching inside the harness process only) and records one event per
specification action.  Nothing under /repo is modified."""
from __future__ import annotations

import functools

# (abstract class path, registry attribute, method, how to find the side)
_STEP_ENTRY = {
    "matching_cost": ("pandora.matching_cost", "AbstractMatchingCost", "matching_cost_methods_avail",
                      "compute_cost_volume", ("img", 0)),
    "aggregation": ("pandora.aggregation", "AbstractAggregation", "aggreg_methods_avail",
                    "cost_volume_aggregation", ("img", 0)),
    "optimization": ("pandora.optimization", "AbstractOptimization", "optimization_methods_avail",
                     "optimize_cv", ("img", 1)),
    "semantic_segmentation": ("pandora.semantic_segmentation", "AbstractSemanticSegmentation",
                              "segmentation_methods_avail", "compute_semantic_segmentation", ("img", 1)),
    "cost_volume_confidence": ("pandora.cost_volume_confidence", "AbstractCostVolumeConfidence",
                               "confidence_methods_avail", "confidence_prediction", ("img", 1)),
    "disparity": ("pandora.disparity", "AbstractDisparity", "disparity_methods_avail", "to_disp", ("img", 1)),
    "filter": ("pandora.filter", "AbstractFilter", "filter_methods_avail", "filter_disparity", ("disp", 0)),
    "refinement": ("pandora.refinement", "AbstractRefinement", "subpixel_methods_avail", "subpixel_refinement",
                   ("disp", 1)),
    "validation": ("pandora.validation", "AbstractValidation", "validation_methods_avail", "disparity_checking",
                   ("disp", 0)),
    "multiscale": ("pandora.multiscale", "AbstractMultiscale", "multiscale_methods_avail", "disparity_range",
                   ("disp", 0)),
}


class MachineTracer:
    """Records, for one PandoraMachine object:
       CheckCb events (each <kind>_check_conf callback actually executed, with the step name),
       RunCb events (each execution of a step class' entry method, with step name, side and image shape)."""

    active = None  # the tracer currently recording (one at a time)

    def __init__(self, machine):
        self.machine = machine
        self.events: list[dict] = []
        self.cur_step = None
        self.cur_kind = None
        self._undo = []

    # ---- installation ----------------------------------------------------------------------------------
    def __enter__(self):
        import importlib
        from pandora.state_machine import PandoraMachine
        MachineTracer.active = self
        for kind in _STEP_ENTRY:
            for phase, suffix in (("check", "_check_conf"), ("run", "_run")):
                name = ("run_multiscale" if (kind, phase) == ("multiscale", "run") else kind + suffix)
                orig = getattr(PandoraMachine, name)
                self._patch(PandoraMachine, name, self._machine_cb(orig, kind, phase))
        orig = PandoraMachine.matching_cost_prepare
        self._patch(PandoraMachine, "matching_cost_prepare", self._machine_cb(orig, "matching_cost", "prepare"))
        for kind, (modname, absname, regname, meth, side) in _STEP_ENTRY.items():
            mod = importlib.import_module(modname)
            abscls = getattr(mod, absname)
            owners = set()
            for cls in list(getattr(abscls, regname).values()) + [abscls]:
                for c in cls.__mro__:
                    if meth in c.__dict__:
                        owners.add(c)
                        break
            for c in owners:
                self._patch(c, meth, self._step_cb(c.__dict__[meth], kind, side))
        # the optional filling of occlusions / mismatches inside the validation step (a sub-step of its own)
        from pandora.validation import interpolated_disparity as interp_mod
        owners = set()
        for cls in list(interp_mod.AbstractInterpolation.interpolation_methods_avail.values()):
            for c in cls.__mro__:
                if "interpolated_disparity" in c.__dict__:
                    owners.add(c)
                    break
        for c in owners:
            self._patch(c, "interpolated_disparity", self._fill_cb(c.__dict__["interpolated_disparity"]))
        return self

    def _fill_cb(self, orig):
        tracer = self

        @functools.wraps(orig)
        def wrapper(obj, ds, *args, **kw):
            m = tracer.machine
            if tracer.cur_kind == "validation" and m is not None:
                sd = "L" if ds is m.left_disparity else ("R" if ds is m.right_disparity else "?")
                tracer.events.append({"ev": "RunSub", "what": "fill", "name": tracer.cur_step, "kind": "validation", "side": sd,
                                      "cscale": m.current_scale})
            return orig(obj, ds, *args, **kw)
        return wrapper

    def __exit__(self, *exc):
        for obj, name, orig in reversed(self._undo):
            setattr(obj, name, orig)
        self._undo = []
        MachineTracer.active = None
        return False

    def _patch(self, obj, name, new):
        self._undo.append((obj, name, obj.__dict__[name]))
        setattr(obj, name, new)

    # ---- wrappers ----------------------------------------------------------------------------------------
    def _machine_cb(self, orig, kind, phase):
        tracer = self

        @functools.wraps(orig)
        def wrapper(machine, cfg, input_step, *a, **kw):
            if machine is not tracer.machine:
                return orig(machine, cfg, input_step, *a, **kw)
            prev = (tracer.cur_step, tracer.cur_kind)
            tracer.cur_step, tracer.cur_kind = input_step, kind
            try:
                res = orig(machine, cfg, input_step, *a, **kw)
                if phase == "check":  # one event per COMPLETED check callback (linearization point: its return)
                    tracer.events.append({"ev": "CheckCb", "name": input_step, "kind": kind})
                return res
            finally:
                tracer.cur_step, tracer.cur_kind = prev
        return wrapper

    def _step_cb(self, orig, kind, side):
        tracer = self
        what, pos = side

        @functools.wraps(orig)
        def wrapper(obj, *args, **kw):
            m = tracer.machine
            if tracer.cur_kind == kind and m is not None:
                arg = args[pos] if len(args) > pos else None
                if what == "img":
                    sd = "L" if arg is m.left_img else ("R" if arg is m.right_img else "?")
                else:
                    sd = "L" if arg is m.left_disparity else ("R" if arg is m.right_disparity else "?")
                # the side of EVERY machine-owned object handed to the step (image, cost volume, disparity dataset): a step
                # execution is "on the left data" only when all of them are the left ones (first object of each sort: the
                # second image of a call is by design the other one)
                sorts = {}
                for a_ in list(args) + list(kw.values()):
                    for sort, lobj, robj in (("img", m.left_img, m.right_img), ("cv", m.left_cv, m.right_cv),
                                             ("disp", m.left_disparity, m.right_disparity)):
                        if a_ is not None and lobj is not None and a_ is lobj:
                            sorts.setdefault(sort, "L")
                        elif a_ is not None and robj is not None and a_ is robj:
                            sorts.setdefault(sort, "R")
                if kind == "validation":
                    sorts.pop("cv", None)     # disparity_checking receives the reference side's own cv or None
                if sd != "?" and any(v != sd for v in sorts.values()):
                    sd = "mixed:" + ",".join(f"{k_}={v}" for k_, v in sorted(sorts.items()))
                li = m.left_img
                evt = {"ev": "RunCb", "name": tracer.cur_step, "kind": kind, "side": sd,
                       "rows": int(li.sizes["row"]), "cols": int(li.sizes["col"]), "cscale": m.current_scale}
                if kind == "matching_cost" and len(args) > 2 and hasattr(args[2], "coords") and "disp" in args[2].coords:
                    evt["dlo"] = float(args[2].coords["disp"].data[0])
                    evt["dhi"] = float(args[2].coords["disp"].data[-1])
                    # interval searched at the corner pixel (a border pixel of every level): the whole interval of the level
                    import numpy as _np
                    lo_src, hi_src = (m.disp_min, m.disp_max) if sd == "L" else (m.right_disp_min, m.right_disp_max)
                    try:
                        evt["blo"] = float(_np.ravel(_np.asarray(lo_src))[0])
                        evt["bhi"] = float(_np.ravel(_np.asarray(hi_src))[0])
                    except Exception:  # pylint: disable=broad-except
                        pass
                tracer.events.append(evt)
            return orig(obj, *args, **kw)
        return wrapper


def project_machine(m) -> dict:
    """Abstract control state of a machine object (the observables of C01)."""
    return {"ms": m.state, "nev": len(m.events), "events": sorted(m.events.keys())}
