----------------------------- MODULE Aggregation -----------------------------
(***************************************************************************)
(* Cross-based cost aggregation (C11).  e: rows, cols, off (window offset),*)
(* s (subpix), dist (cbca_distance), int2 (= 2 * s * cbca_intensity, an     *)
(* integer), L, R: [row][col] integer images, mL, mR: [row][col] (0 = valid)*)
(* cv: [row][col][k] input costs (integers or NaN), first: scaled value of  *)
(* the first disparity sample.                                             *)
(* Images are compared after a 3x3 median prefilter of the valid pixels;   *)
(* scaled by 2*s so that interpolated columns and medians of an even count *)
(* stay integers.  Inf is the value of a masked pixel.                     *)
(***************************************************************************)
EXTENDS Interpolation

Inf == 1000000001
\* right image resampled at columns c + k/s (k = 0: the image itself), scaled by s; masked when a source pixel is
RCols(e, k) == IF k = 0 THEN e.cols ELSE e.cols - 1
RawR(e, k, r, c) == IF k = 0 THEN e.s * e.R[r][c] ELSE (e.s - k) * e.R[r][c] + k * e.R[r][c + 1]
MaskR(e, k, r, c) == e.mR[r][c] # 0 \/ (k # 0 /\ e.mR[r][c + 1] # 0)
RawL(e, r, c) == e.s * e.L[r][c]
MaskL(e, r, c) == e.mL[r][c] # 0

\* generic image access: side "L" or <<"R", k>>
IsL(sd) == sd[1] = "L"
ICols(e, sd) == IF IsL(sd) THEN e.cols ELSE RCols(e, sd[2])
IRaw(e, sd, r, c) == IF IsL(sd) THEN RawL(e, r, c) ELSE RawR(e, sd[2], r, c)
IMask(e, sd, r, c) == IF IsL(sd) THEN MaskL(e, r, c) ELSE MaskR(e, sd[2], r, c)

\* 3x3 median of the valid pixels where the 3x3 window fits in the image; twice the value (half-integers)
Pre2(e, sd, r, c) ==
   IF IMask(e, sd, r, c) THEN Inf
   ELSE IF r >= 2 /\ r <= e.rows - 1 /\ c >= 2 /\ c <= ICols(e, sd) - 1
        THEN LET cells == {x \in ((r - 1)..(r + 1)) \X ((c - 1)..(c + 1)) : ~IMask(e, sd, x[1], x[2])}
                 f == [x \in cells |-> IRaw(e, sd, x[1], x[2])]
             IN FMedian2(f)
        ELSE 2 * IRaw(e, sd, r, c)

\* the arms are computed on the image cropped by the window offset
InCrop(e, sd, r, c) == r >= 1 + e.off /\ r <= e.rows - e.off /\ c >= 1 + e.off /\ c <= ICols(e, sd) - e.off
Similar(e, sd, r, c, rr, cc) == Pre2(e, sd, rr, cc) # Inf /\ Abs(Pre2(e, sd, r, c) - Pre2(e, sd, rr, cc)) < e.int2
\* number of consecutive similar pixels in direction (dr, dc), at most dist - 1
RECURSIVE Run(_, _, _, _, _, _, _)
Run(e, sd, r, c, dr, dc, i) ==
   IF i > e.dist - 1 THEN 0
   ELSE LET rr == r + i * dr  cc == c + i * dc
        IN IF InCrop(e, sd, rr, cc) /\ Similar(e, sd, r, c, rr, cc) THEN 1 + Run(e, sd, r, c, dr, dc, i + 1) ELSE 0
\* one-pixel minimum when the neighbour is a valid pixel of the cropped image (even across an intensity jump)
Arm(e, sd, r, c, dr, dc) ==
   IF Pre2(e, sd, r, c) = Inf THEN 0
   ELSE LET n == Run(e, sd, r, c, dr, dc, 1)
        IN IF n > 0 THEN n
           ELSE IF InCrop(e, sd, r + dr, c + dc) /\ Pre2(e, sd, r + dr, c + dc) # Inf THEN 1 ELSE 0
Min2(a, b) == IF a <= b THEN a ELSE b

\* aggregated cost of (r, c) for the sample D: <<sum, count>>; the correspondent column is c + floor(D / s)
AggDi(e, D) == D \div e.s
AggK(e, D) == D % e.s
HasCorr(e, c, D) == c + AggDi(e, D) >= 1 + e.off /\ c + AggDi(e, D) <= RCols(e, AggK(e, D)) - e.off
CArm(e, r, c, D, dr, dc) == Min2(Arm(e, <<"L", 0>>, r, c, dr, dc), Arm(e, <<"R", AggK(e, D)>>, r, c + AggDi(e, D), dr, dc))
CostOr0(e, r, c, k) == IF e.cv[r][c][k] = NaN THEN 0 ELSE e.cv[r][c][k]
Region(e, r, c, D) ==
   UNION {{<<rr, cc>> : cc \in (c - CArm(e, rr, c, D, 0, -1))..(c + CArm(e, rr, c, D, 0, 1))}
          : rr \in (r - CArm(e, r, c, D, -1, 0))..(r + CArm(e, r, c, D, 1, 0))}
AggSum(e, r, c, D, k) == MapThenSumSet(LAMBDA x : CostOr0(e, x[1], x[2], k), Region(e, r, c, D))
AggCount(e, r, c, D) == Cardinality(Region(e, r, c, D))

\* ---- the same definitions over precomputed tables (TLC does not memoise operator applications; a table bound by a LET is
\* evaluated once per case).  MC_Aggregation checks that the tabled region equals the region defined above.
AggSides(e) == {<<"L", 0>>} \cup {<<"R", k>> : k \in 0..(e.s - 1)}
PreTable(e) == [sd \in AggSides(e) |-> [r \in 1..e.rows |-> [c \in 1..ICols(e, sd) |-> Pre2(e, sd, r, c)]]]
InCropT(e, sd, r, c) == InCrop(e, sd, r, c)
RECURSIVE RunT(_, _, _, _, _, _, _, _)
RunT(e, PT, sd, r, c, dr, dc, i) ==
   IF i > e.dist - 1 THEN 0
   ELSE LET rr == r + i * dr  cc == c + i * dc
        IN IF InCrop(e, sd, rr, cc) /\ PT[sd][rr][cc] # Inf /\ Abs(PT[sd][r][c] - PT[sd][rr][cc]) < e.int2
           THEN 1 + RunT(e, PT, sd, r, c, dr, dc, i + 1) ELSE 0
ArmT(e, PT, sd, r, c, dr, dc) ==
   IF PT[sd][r][c] = Inf THEN 0
   ELSE LET n == RunT(e, PT, sd, r, c, dr, dc, 1)
        IN IF n > 0 THEN n ELSE IF InCrop(e, sd, r + dr, c + dc) /\ PT[sd][r + dr][c + dc] # Inf THEN 1 ELSE 0
Dirs4 == <<<<0, -1>>, <<0, 1>>, <<-1, 0>>, <<1, 0>>>>          \* left, right, up, down
ArmTable(e) == LET PT == PreTable(e)
               IN [sd \in AggSides(e) |-> [r \in 1..e.rows |-> [c \in 1..ICols(e, sd) |->
                     [i \in 1..4 |-> ArmT(e, PT, sd, r, c, Dirs4[i][1], Dirs4[i][2])]]]]
CArmTab(e, T, r, c, D, i) == Min2(T[<<"L", 0>>][r][c][i], T[<<"R", AggK(e, D)>>][r][c + AggDi(e, D)][i])
RegionTab(e, T, r, c, D) ==
   UNION {{<<rr, cc>> : cc \in (c - CArmTab(e, T, rr, c, D, 1))..(c + CArmTab(e, T, rr, c, D, 2))}
          : rr \in (r - CArmTab(e, T, r, c, D, 3))..(r + CArmTab(e, T, r, c, D, 4))}
AggSumTab(e, T, r, c, D, k) == MapThenSumSet(LAMBDA x : CostOr0(e, x[1], x[2], k), RegionTab(e, T, r, c, D))
AggCountTab(e, T, r, c, D) == Cardinality(RegionTab(e, T, r, c, D))
=============================================================================
