----------------------------- MODULE Confidence -----------------------------
(***************************************************************************)
(* Cost-volume confidence measures (C12) on integer cost volumes.          *)
(* e: rows, cols, nd, cv [row][col][k] (integers or NaN), cmin, cmax (the  *)
(* global extreme finite costs, cmin < cmax), K (number of eta samples),   *)
(* sp / sq = eta_step (rational), tp / tq = possibility threshold,         *)
(* first (scaled first disparity), s (subpix).                             *)
(* "cost within eta_k of the best": (c - best) / (cmax - cmin) <= k * step *)
(* <=> (c - best) * sq <= k * sp * (cmax - cmin), all integers.  On an     *)
(* exact tie float arithmetic may fall on either side: Lo uses <, Hi <=.   *)
(***************************************************************************)
EXTENDS Aggregation

Row(e, r, c) == e.cv[r][c]
FiniteIdx(row) == {k \in 1..Len(row) : row[k] # NaN}
Best(row) == CHOOSE v \in {row[k] : k \in FiniteIdx(row)} : \A k \in FiniteIdx(row) : v <= row[k]
\* a NaN cost counts as "within eta"
WithinHi(e, row, d, k) == row[d] = NaN \/ (row[d] - Best(row)) * e.sq <= k * e.sp * (e.cmax - e.cmin)
WithinLo(e, row, d, k) == row[d] = NaN \/ (row[d] - Best(row)) * e.sq <  k * e.sp * (e.cmax - e.cmin) \/ row[d] = Best(row)
Ks(e) == 0..(e.K - 1)
CountHi(e, row, k) == Cardinality({d \in 1..Len(row) : WithinHi(e, row, d, k)})
CountLo(e, row, k) == Cardinality({d \in 1..Len(row) : WithinLo(e, row, d, k)})
NoTie(e, row) == \A k \in Ks(e) : \A d \in 1..Len(row) : WithinHi(e, row, d, k) = WithinLo(e, row, d, k)
\* unnormalised ambiguity integral: sum over eta of the count; all-NaN pixel: the maximal count
AmbHi(e, row) == IF FiniteIdx(row) = {} THEN e.K * Len(row) ELSE MapThenSumSet(LAMBDA k : CountHi(e, row, k), Ks(e))
AmbLo(e, row) == IF FiniteIdx(row) = {} THEN e.K * Len(row) ELSE MapThenSumSet(LAMBDA k : CountLo(e, row, k), Ks(e))
\* risk (in sample units): spread of the disparities within eta, and 1 + spread - count; sums over eta (means = sums / K)
Dk(e, row, k) == {d \in 1..Len(row) : WithinHi(e, row, d, k)}
Spread(e, row, k) == LET D == Dk(e, row, k) IN (CHOOSE x \in D : \A y \in D : x >= y) - (CHOOSE x \in D : \A y \in D : x <= y)
RiskMaxSum(e, row) == MapThenSumSet(LAMBDA k : Spread(e, row, k), Ks(e))
RiskMinSum(e, row) == MapThenSumSet(LAMBDA k : 1 + Spread(e, row, k) - CountHi(e, row, k), Ks(e))
\* interval bounds: extreme samples whose possibility 1 - (c - best)/(cmax - cmin) reaches the threshold, widened by one
\* sample at an end that is itself a best cost
PossHi(e, row, d) == row[d] # NaN /\ (row[d] - Best(row)) * e.tq <= (e.tq - e.tp) * (e.cmax - e.cmin)
PossLo(e, row, d) == row[d] # NaN /\ ((row[d] - Best(row)) * e.tq < (e.tq - e.tp) * (e.cmax - e.cmin) \/ row[d] = Best(row))
MinOf(S) == CHOOSE x \in S : \A y \in S : x <= y
MaxOf(S) == CHOOSE x \in S : \A y \in S : x >= y
InfIdx(row, D) == LET i == MinOf(D) IN IF row[i] = Best(row) /\ i > 1 THEN i - 1 ELSE i
SupIdx(row, D) == LET i == MaxOf(D) IN IF row[i] = Best(row) /\ i < Len(row) THEN i + 1 ELSE i
BoundsAllowed(e, row) ==
   LET Dh == {d \in 1..Len(row) : PossHi(e, row, d)}  Dl == {d \in 1..Len(row) : PossLo(e, row, d)}
   IN {<<InfIdx(row, Dh), SupIdx(row, Dh)>>, <<InfIdx(row, Dl), SupIdx(row, Dl)>>}
WtaIdxMin(row) == MinOf({k \in FiniteIdx(row) : row[k] = Best(row)})
=============================================================================
