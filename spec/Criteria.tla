------------------------------ MODULE Criteria ------------------------------
(***************************************************************************)
(* Validity flags (C04): one set of independent bits per pixel.  Causes    *)
(* are transcribed from output.rst / the C04 statement, over the GLOBAL    *)
(* integer disparity interval gmin..gmax.  Flags are SETS of bit numbers.  *)
(***************************************************************************)
EXTENDS MatchingCost

Bits(v) == {k \in 0..15 : (v \div (2 ^ k)) % 2 = 1}       \* projection of a real mask value
WellFormedFlag(v) == v >= 0 /\ v < 65536
InvalidBits == {0, 1, 6, 7}
DocumentedBits == {0, 1, 2, 3, 4, 5, 6, 7, 8, 9, 10, 11}

G(P) == P.gmin..P.gmax
\* the right window of candidate c + d stays inside the right image (integer d)
CandInside(P, c, d) == c + d - Off(P.win) >= 1 /\ c + d + Off(P.win) <= P.cols
Border(P, r, c) == ~WindowInside(P, r, c)
AllNaN(P, r, c) == \A D \in Samples(P) : ~Computable(P, r, c, D)

Cause0(P, r, c) == NodataInWindow(P, P.mL, r, c)
Cause6(P, r, c) == P.mL[r][c] = 2
Cause1(P, r, c) == AllNaN(P, r, c)
Cause2(P, r, c) == (\E d \in G(P) : ~CandInside(P, c, d)) /\ (\E d \in G(P) : CandInside(P, c, d))
Cause7(P, r, c) == (\E d \in G(P) : CandInside(P, c, d))
                   /\ \A d \in G(P) : CandInside(P, c, d) => P.mR[r][c + d] = 2

\* flags of the cost volume / of the disparity map before validation
MatchingBits(P, r, c) ==
   IF Border(P, r, c) THEN {0}
   ELSE {k \in {0, 1, 2, 6, 7} : CASE k = 0 -> Cause0(P, r, c) [] k = 1 -> Cause1(P, r, c)
                                  [] k = 2 -> Cause2(P, r, c) [] k = 6 -> Cause6(P, r, c)
                                  [] k = 7 -> Cause7(P, r, c)}

IsInvalidFlag(bits) == bits \cap InvalidBits # {}
=============================================================================
