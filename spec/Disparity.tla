----------------------------- MODULE Disparity -----------------------------
(***************************************************************************)
(* Winner-takes-all (C03).  A cost row is a sequence over the sampled      *)
(* disparities; entries are integers (exact costs or order-preserving      *)
(* ranks of arbitrary floats) or NaN.                                      *)
(***************************************************************************)
EXTENDS MatchingCost

Finite(row) == {k \in 1..Len(row) : row[k] # NaN}
Better(type, a, b) == IF type = "min" THEN a < b ELSE a > b
\* index of the winner: best cost, ties going to the lowest disparity (= lowest index)
WtaIdx(row, type) ==
   CHOOSE k \in Finite(row) : \A j \in Finite(row) :
       /\ ~Better(type, row[j], row[k])
       /\ (row[j] = row[k] => k <= j)
\* first: scaled value of the first sample (s * gmin); inv: encoded invalid_disparity
Wta(row, type, first, inv) == IF Finite(row) = {} THEN inv ELSE first + WtaIdx(row, type) - 1
=============================================================================
