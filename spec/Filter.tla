------------------------------- MODULE Filter -------------------------------
(***************************************************************************)
(* Disparity filters (C10).  A map is [row][col] of integers: exact scaled *)
(* values (mode "exact": disparity * 8) or joint order-preserving ranks of *)
(* inputs and outputs (mode "rank": input values have even ranks, an       *)
(* output strictly between two consecutive inputs has the odd rank in      *)
(* between).  bad[r][c] = TRUE for pixels that are not filtered (flagged    *)
(* invalid, or not finite).  The window of width w of pixel (r, c) is rows *)
(* [r - w \div 2, r - w \div 2 + w) and the same for columns (symmetric    *)
(* for odd w; the bilateral filter may have an even w).                    *)
(***************************************************************************)
EXTENDS Validation

WLo(x, w) == x - (w \div 2)
WinFits(e, r, c) == WLo(r, e.w) >= 1 /\ WLo(r, e.w) + e.w - 1 <= e.rows /\ WLo(c, e.w) >= 1 /\ WLo(c, e.w) + e.w - 1 <= e.cols
WinCells(e, r, c) == {x \in (WLo(r, e.w)..(WLo(r, e.w) + e.w - 1)) \X (WLo(c, e.w)..(WLo(c, e.w) + e.w - 1)) : ~e.bad[x[1]][x[2]]}
CountLt(e, S, v) == Cardinality({x \in S : e.d[x[1]][x[2]] < v})
CountLe(e, S, v) == Cardinality({x \in S : e.d[x[1]][x[2]] <= v})
\* k-th smallest value (1-based) of the multiset of window values
Kth(e, S, k) == LET vals == {e.d[x[1]][x[2]] : x \in S}
                IN CHOOSE v \in vals : CountLt(e, S, v) < k /\ CountLe(e, S, v) >= k
MinVal(e, S) == CHOOSE v \in {e.d[x[1]][x[2]] : x \in S} : \A x \in S : v <= e.d[x[1]][x[2]]
MaxVal(e, S) == CHOOSE v \in {e.d[x[1]][x[2]] : x \in S} : \A x \in S : v >= e.d[x[1]][x[2]]

\* median of the valid disparities of the window; even count: mean of the two middle values
MedianOk(e, r, c, out) ==
   LET S == WinCells(e, r, c)  n == Cardinality(S)
   IN IF n % 2 = 1 THEN out = Kth(e, S, (n + 1) \div 2)
      ELSE LET a == Kth(e, S, n \div 2)  b == Kth(e, S, n \div 2 + 1)
           IN IF a = b THEN out = a
              ELSE IF e.mode = "exact" THEN 2 * out = a + b
              ELSE a < out /\ out < b
\* weighted mean with positive weights: between the extreme valid values of the window
BilateralOk(e, r, c, out) ==
   LET S == WinCells(e, r, c) IN MinVal(e, S) <= out /\ out <= MaxVal(e, S)
=============================================================================
