---------------------------- MODULE Interpolation ----------------------------
(***************************************************************************)
(* Filling of occlusions (bit 8) and mismatches (bit 9) after a cross-     *)
(* check (C14).  A state is [d, vm]: d[row][col] disparities as exact      *)
(* scaled integers (disparity * 8), vm[row][col] flag values.  Each method *)
(* is two sequential passes; each pass is one action that reads the state  *)
(* left by the previous one, scans from the flags of ITS input, and may    *)
(* change only pixels carrying the bit it treats.                          *)
(***************************************************************************)
EXTENDS Filter

IsValidPx(s, r, c) == Bits(s.vm[r][c]) \cap AllInvalidBits = {}
Has(s, r, c, b) == b \in Bits(s.vm[r][c])
InMap(e, r, c) == r >= 1 /\ r <= e.rows /\ c >= 1 /\ c <= e.cols
\* flag value with bit a cleared and bit b set
Swap(v, a, b) == LET bs == (Bits(v) \ {a}) \cup {b} IN MapThenSumSet(LAMBDA k : 2 ^ k, bs)

TruncHalf(a2, i) == IF a2 >= 0 THEN (a2 * i) \div 2 ELSE -(((-a2) * i) \div 2)      \* trunc(a2/2 * i)
\* first valid pixel along the ray (r + trunc(ar*i), c + trunc(ac*i)), i = 1, 2, ... ; <<>> when the ray leaves the map
RECURSIVE RayFrom(_, _, _, _, _, _, _)
RayFrom(e, s, r, c, ar2, ac2, i) ==
   LET rr == r + TruncHalf(ar2, i)  cc == c + TruncHalf(ac2, i)
   IN IF ~InMap(e, rr, cc) THEN <<>>
      ELSE IF IsValidPx(s, rr, cc) THEN <<s.d[rr][cc]>>
      ELSE RayFrom(e, s, r, c, ar2, ac2, i + 1)
Dirs8  == <<<<0, 2>>, <<-2, 2>>, <<-2, 0>>, <<-2, -2>>, <<0, -2>>, <<2, -2>>, <<2, 0>>, <<2, 2>>>>
Dirs16 == <<<<0, 2>>, <<-1, 2>>, <<-2, 2>>, <<-2, 1>>, <<-2, 0>>, <<-2, -1>>, <<-2, -2>>, <<-1, -2>>,
            <<0, -2>>, <<1, -2>>, <<2, -2>>, <<2, -1>>, <<2, 0>>, <<2, 1>>, <<2, 2>>, <<1, 2>>>>
\* found values, as a function direction index -> value (a multiset); directions without valid pixel are absent
Found(e, s, r, c, dirs) == LET idx == {k \in 1..Len(dirs) : RayFrom(e, s, r, c, dirs[k][1], dirs[k][2], 1) # <<>>}
                           IN [k \in idx |-> RayFrom(e, s, r, c, dirs[k][1], dirs[k][2], 1)[1]]
FCountLt(f, v) == Cardinality({k \in DOMAIN f : f[k] < v})
FCountLe(f, v) == Cardinality({k \in DOMAIN f : f[k] <= v})
FKth(f, k) == CHOOSE v \in {f[j] : j \in DOMAIN f} : FCountLt(f, v) < k /\ FCountLe(f, v) >= k
\* twice the median (so that the mean of the two middle values stays an integer)
FMedian2(f) == LET n == Cardinality(DOMAIN f)
               IN IF n % 2 = 1 THEN 2 * FKth(f, (n + 1) \div 2) ELSE FKth(f, n \div 2) + FKth(f, n \div 2 + 1)
\* sgm occlusions: the value with the second-smallest absolute value (any of them on a tie of |.|); the only one if alone
FAbsCountLt(f, a) == Cardinality({k \in DOMAIN f : Abs(f[k]) < a})
FAbsCountLe(f, a) == Cardinality({k \in DOMAIN f : Abs(f[k]) <= a})
SecondLowestAbs(f) == IF Cardinality(DOMAIN f) = 1 THEN {f[k] : k \in DOMAIN f}
                      ELSE {f[k] : k \in {j \in DOMAIN f : FAbsCountLt(f, Abs(f[j])) < 2 /\ FAbsCountLe(f, Abs(f[j])) >= 2}}

\* first valid pixel to the left in the row, else to the right
RECURSIVE ScanRow(_, _, _, _, _)
ScanRow(e, s, r, c, step) == IF c < 1 \/ c > e.cols THEN <<>>
                             ELSE IF IsValidPx(s, r, c) THEN <<s.d[r][c]>> ELSE ScanRow(e, s, r, c + step, step)

\* ---- expected post-state of ONE pixel for each pass: a set of acceptable <<d, vm>> pairs ----------------------
Same(s, r, c) == {<<s.d[r][c], s.vm[r][c]>>}
McCnnOcclusion(e, s, r, c) ==
   IF ~Has(s, r, c, 8) THEN Same(s, r, c)
   ELSE LET l == ScanRow(e, s, r, c - 1, -1)  rg == ScanRow(e, s, r, c + 1, 1)
        IN IF l # <<>> THEN {<<l[1], Swap(s.vm[r][c], 8, 4)>>}
           ELSE IF rg # <<>> THEN {<<rg[1], Swap(s.vm[r][c], 8, 4)>>}
           ELSE Same(s, r, c)
McCnnMismatch(e, s, r, c) ==
   IF ~Has(s, r, c, 9) THEN Same(s, r, c)
   ELSE LET f == Found(e, s, r, c, Dirs16)
        IN IF DOMAIN f = {} THEN Same(s, r, c)
           ELSE IF FMedian2(f) % 2 = 0 THEN {<<FMedian2(f) \div 2, Swap(s.vm[r][c], 9, 5)>>} ELSE {<<-999999, 0>>}
OcclusionNear(e, s, r, c) == \E rr \in (r - 1)..(r + 1), cc \in (c - 1)..(c + 1) : InMap(e, rr, cc) /\ Has(s, rr, cc, 8)
SgmMismatch(e, s, r, c) ==
   IF ~Has(s, r, c, 9) THEN Same(s, r, c)
   ELSE IF OcclusionNear(e, s, r, c) THEN {<<s.d[r][c], Swap(s.vm[r][c], 9, 8)>>}
   ELSE LET f == Found(e, s, r, c, Dirs8)
        IN IF DOMAIN f = {} THEN Same(s, r, c)
           ELSE IF FMedian2(f) % 2 = 0 THEN {<<FMedian2(f) \div 2, Swap(s.vm[r][c], 9, 5)>>} ELSE {<<-999999, 0>>}
SgmOcclusion(e, s, r, c) ==
   IF ~Has(s, r, c, 8) THEN Same(s, r, c)
   ELSE LET f == Found(e, s, r, c, Dirs8)
        IN IF DOMAIN f = {} THEN Same(s, r, c)
           ELSE {<<v, Swap(s.vm[r][c], 8, 4)>> : v \in SecondLowestAbs(f)}

Expected(e, s, r, c) == CASE e.pass = "mc_cnn_occlusion" -> McCnnOcclusion(e, s, r, c)
                          [] e.pass = "mc_cnn_mismatch"  -> McCnnMismatch(e, s, r, c)
                          [] e.pass = "sgm_mismatch"     -> SgmMismatch(e, s, r, c)
                          [] e.pass = "sgm_occlusion"    -> SgmOcclusion(e, s, r, c)
\* the statement's own clauses, independent of the pass operators
ValidRange(e, s) == {s.d[x[1]][x[2]] : x \in {y \in (1..e.rows) \X (1..e.cols) : IsValidPx(s, y[1], y[2])}}
=============================================================================
