INIT Init
NEXT Next
INVARIANT T_RegionContainsPixel
INVARIANT T_RegionInside
INVARIANT T_ArmBound
INVARIANT T_MaskedHasNoArm
INVARIANT T_CountIsRegion
CHECK_DEADLOCK FALSE
