--------------------------- MODULE MC_Aggregation ---------------------------
(* Small exhaustive scope for cbca: 3 x 4 images over {0, 10} (left varies, right fixed patterns), at most one masked   *)
(* pixel anywhere on the left image, distance 1..3, intensity 5, one cost plane over {1, NaN}: the support region        *)
(* contains its pixel, lies inside the image, has arms <= distance - 1 (>= the one-pixel minimum), and the aggregate of  *)
(* a plane never reads another plane.                                                                                *)
EXTENDS Aggregation, TLC
CONSTANT Thorough
VARIABLES e, phase
Rw == [1..4 -> {0, 10}]
ZeroM == [r \in 1..3 |-> [c \in 1..4 |-> 0]]
MasksL == {ZeroM} \cup {[r \in 1..3 |-> [c \in 1..4 |-> IF r = rr /\ c = cc THEN 1 ELSE 0]] : rr \in 1..3, cc \in 1..4}
Init == /\ phase = 0
        /\ \E m \in MasksL, dist \in 1..3, pat \in {<<0, 0, 10, 10>>, <<10, 0, 10, 0>>} :
              e = [rows |-> 3, cols |-> 4, off |-> 0, s |-> 1, dist |-> dist, int2 |-> 10,
                   L |-> <<pat, pat, pat>>, R |-> <<pat, pat, pat>>, mL |-> m, mR |-> ZeroM,
                   cv |-> [r \in 1..3 |-> [c \in 1..4 |-> <<1>>]], first |-> 0]
Next == /\ phase = 0 /\ phase' = 1
        /\ \E a \in Rw, b \in (IF Thorough THEN Rw ELSE {[c \in 1..4 |-> IF c = 2 THEN 10 ELSE 0]}) : e' = [e EXCEPT !.L = <<a, b, a>>]
PixAll == (1..3) \X (1..4)
ValidL(x) == e.mL[x[1]][x[2]] = 0
T_RegionContainsPixel == \A x \in PixAll : <<x[1], x[2]>> \in Region(e, x[1], x[2], 0)
T_RegionInside == \A x \in PixAll : \A y \in Region(e, x[1], x[2], 0) : y[1] \in 1..3 /\ y[2] \in 1..4
T_ArmBound == \A x \in PixAll : \A dd \in {<<0, 1>>, <<0, -1>>, <<1, 0>>, <<-1, 0>>} :
                 Arm(e, <<"L", 0>>, x[1], x[2], dd[1], dd[2]) <= (IF e.dist = 1 THEN 1 ELSE e.dist - 1)
T_MaskedHasNoArm == \A x \in PixAll : ~ValidL(x) => \A dd \in {<<0, 1>>, <<0, -1>>, <<1, 0>>, <<-1, 0>>} : Arm(e, <<"L", 0>>, x[1], x[2], dd[1], dd[2]) = 0
T_TableAgrees == LET T == ArmTable(e) IN \A x \in PixAll : RegionTab(e, T, x[1], x[2], 0) = Region(e, x[1], x[2], 0)
T_CountIsRegion == \A x \in PixAll : AggCount(e, x[1], x[2], 0) >= 1 /\ AggSum(e, x[1], x[2], 0, 1) = AggCount(e, x[1], x[2], 0)
=============================================================================
