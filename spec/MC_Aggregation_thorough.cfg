INIT Init
NEXT Next
CONSTANT Thorough = TRUE
INVARIANT T_RegionContainsPixel
INVARIANT T_RegionInside
INVARIANT T_ArmBound
INVARIANT T_MaskedHasNoArm
INVARIANT T_CountIsRegion
INVARIANT T_TableAgrees
CHECK_DEADLOCK TRUE
