INIT Init
NEXT Next
INVARIANT T_AmbRange
INVARIANT T_AllNaNMax
INVARIANT T_RiskOrdered
INVARIANT T_BoundsBracketWta
INVARIANT T_CountMonotone
CHECK_DEADLOCK FALSE
