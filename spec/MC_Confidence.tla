---------------------------- MODULE MC_Confidence ----------------------------
(* Exhaustive small scope: every cost row of 4 samples over {0, 1, 2, 3, NaN}, eta grids (K, step) in {(4, 1/4), (3, 1/8)},      *)
(* thresholds {1/2, 9/10, 1}: range facts of Confidence.tla.                                                                   *)
EXTENDS Confidence, TLC
VARIABLES e
Vals == {0, 1, 2, 3, NaN}
Init == \E row \in [1..4 -> Vals], g \in {<<4, 1, 4>>, <<3, 1, 8>>}, t \in {<<1, 2>>, <<9, 10>>, <<1, 1>>} :
           e = [rows |-> 1, cols |-> 1, nd |-> 4, cv |-> <<<<row>>>>, cmin |-> 0, cmax |-> 3, K |-> g[1], sp |-> g[2], sq |-> g[3],
                tp |-> t[1], tq |-> t[2], first |-> 0, s |-> 1]
Next == UNCHANGED e
R == e.cv[1][1]
HasCost == FiniteIdx(R) # {}
T_AmbRange == AmbLo(e, R) >= (IF HasCost THEN e.K ELSE 0) /\ AmbLo(e, R) <= AmbHi(e, R) /\ AmbHi(e, R) <= e.K * 4
T_AllNaNMax == ~HasCost => AmbHi(e, R) = e.K * 4
T_RiskOrdered == HasCost => (0 <= RiskMinSum(e, R) /\ RiskMinSum(e, R) <= RiskMaxSum(e, R))
T_BoundsBracketWta == HasCost => \A b \in BoundsAllowed(e, R) : b[1] <= WtaIdxMin(R) /\ WtaIdxMin(R) <= b[2] /\ b[1] >= 1 /\ b[2] <= 4
T_CountMonotone == HasCost => \A k \in 0..(e.K - 2) : CountHi(e, R, k) <= CountHi(e, R, k + 1)
=============================================================================
