INIT Init
NEXT Next
CONSTANT Pairs = FALSE
INVARIANT T_DefaultsAreValid
INVARIANT T_EmptyCfgAccepted
INVARIANT T_UnknownMethodRejected
INVARIANT T_Emit
CHECK_DEADLOCK FALSE
