------------------------------ MODULE MC_Config ------------------------------
(* Generator and small-scope theorems for configuration checking (C05).  TLC enumerates, for every step kind and built-in  *)
(* method, every claimed parameter with every value of its boundary universe (one varied parameter, the others omitted or  *)
(* valid), plus pairs of varied parameters, on mono- and multi-band images; each enumerated configuration is printed as a     *)
(* behaviour (BEH line) together with the specification's verdict and the defaults that must be filled in; the harness        *)
(* replays every behaviour into the real check_conf.                                                                          *)
EXTENDS PandoraConfig, Json
CONSTANT Pairs
VARIABLES c
Kinds == {"matching_cost", "aggregation", "disparity", "refinement", "filter", "validation", "cost_volume_confidence", "multiscale"}
IntVals == {I(n) : n \in {-2, -1, 0, 1, 2, 3, 4, 5, 6, 7, 8, 9}}
FltVals == {F(m) : m \in {-1000, 0, 10, 500, 600, 700, 900, 999, 1000, 1500, 2000, 30000}}
Universe == IntVals \cup FltVals \cup {S("NaN"), S("inf"), S("-inf"), S("x"), S("r"), S("g"), S("b"), S("mc-cnn"), S("sgm"), S("mc_cnn"), S(""), B(TRUE), B(FALSE), Null}
OneParamOk == {x \in [kind : Kinds, method : {"sad", "ssd", "census", "zncc", "cbca", "wta", "vfit", "quadratic", "median", "bilateral",
                                              "median_for_intervals", "cross_checking_accurate", "ambiguity", "risk", "std_intensity",
                                              "interval_bounds", "fixed_zoom_pyramid", "no_such_method"},
                       pi : 0..8, v : Universe, mb : 0..2] :
                  /\ (x.method \in Methods(x.kind) \/ x.method = "no_such_method")
                  /\ x.pi <= Len(Params(x.kind, x.method))
                  /\ (x.pi = 0 => x.v = Null)
                  /\ (x.mb # 0 => x.kind = "matching_cost")}
CfgOf(x) == IF x.pi = 0 THEN <<>> ELSE <<<<Params(x.kind, x.method)[x.pi][1], x.v>>>>
\* 0: monoband images; 1: both images hold bands r, g; 2: left holds r, g and right holds g, b
BandsOf(x) == CASE x.mb = 0 -> <<{}, {}>> [] x.mb = 1 -> <<{"r", "g"}, {"r", "g"}>> [] OTHER -> <<{"r", "g"}, {"g", "b"}>>
\* a multiband image needs a band: add a valid one unless the varied parameter is the band itself
FullCfg(x) == IF x.mb # 0 /\ ~(x.pi # 0 /\ Params(x.kind, x.method)[x.pi][1] = "band") THEN CfgOf(x) \o <<<<"band", S("g")>>>> ELSE CfgOf(x)
Init == c \in OneParamOk
Next == UNCHANGED c
Emit == PrintT(<<"BEH", ToJson([kind |-> c.kind, method |-> c.method, mkey |-> MethodKey(c.kind), cfg |-> FullCfg(c), multiband |-> c.mb,
                                  verdict |-> StepVerdict(c.kind, c.method, FullCfg(c), BandsOf(c)),
                                  defaults |-> MissingDefaults(c.kind, c.method, FullCfg(c))])>>)
\* theorems of the table itself
T_DefaultsAreValid == \A i \in 1..Len(Params(c.kind, c.method)) :
                          Params(c.kind, c.method)[i][2] # Absent =>
                             Dom(c.kind, c.method, Params(c.kind, c.method)[i][1], Params(c.kind, c.method)[i][2], <<{}, {}>>) = "yes"
T_EmptyCfgAccepted == (c.method \in Methods(c.kind)) => StepVerdict(c.kind, c.method, <<>>, <<{}, {}>>) = "accept"
T_UnknownMethodRejected == (c.method = "no_such_method") => StepVerdict(c.kind, c.method, FullCfg(c), BandsOf(c)) = "reject"
\* completing twice adds nothing: after the defaults are filled in nothing is missing
T_CompleteIdempotent ==
   LET md == MissingDefaults(c.kind, c.method, FullCfg(c))
       full == FullCfg(c) \o [i \in 1..Cardinality(md) |-> CHOOSE d \in md : TRUE]
   IN Cardinality(md) <= 1 => MissingDefaults(c.kind, c.method, full) = md \ {CHOOSE d \in md : TRUE}
T_Emit == Emit
=============================================================================
