INIT Init
NEXT Next
INVARIANT T_InvalidIffAllNaN
INVARIANT T_Best
CHECK_DEADLOCK FALSE
