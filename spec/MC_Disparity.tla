----------------------------- MODULE MC_Disparity -----------------------------
(* Exhaustive small scope for winner-takes-all: every cost row of length 1..4 over {0, 1, 2, NaN}, min and max:      *)
(* the operator Wta satisfies the C03 statement (best computable cost, ties to the lowest disparity, invalid iff no     *)
(* computable cost), written here independently of the operator.                                                     *)
EXTENDS Disparity, TLC
VARIABLES row, type
Vals == {0, 1, 2, NaN}
Init == /\ type \in {"min", "max"}
        /\ \E n \in 1..4 : row \in [1..n -> Vals]
Next == UNCHANGED <<row, type>>
Inv == 424242
W == Wta(row, type, -3, Inv)
T_InvalidIffAllNaN == (W = Inv) <=> (\A k \in 1..Len(row) : row[k] = NaN)
T_Best == W # Inv => LET k == W + 3 + 1 IN
              /\ k \in 1..Len(row) /\ row[k] # NaN
              /\ \A j \in 1..Len(row) : row[j] # NaN =>
                    (IF type = "min" THEN row[k] <= row[j] ELSE row[k] >= row[j])
              /\ \A j \in 1..(k - 1) : row[j] = NaN \/ row[j] # row[k]
=============================================================================
