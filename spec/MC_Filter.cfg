INIT Init
NEXT Next
INVARIANT T_Fits
INVARIANT T_KthTotal
INVARIANT T_KthMonotone
INVARIANT T_MedianEnclosed
INVARIANT T_MedianExists
INVARIANT T_MedianUnique
INVARIANT T_ConstantFixpoint
CHECK_DEADLOCK FALSE
