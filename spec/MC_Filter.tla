------------------------------ MODULE MC_Filter ------------------------------
(* Exhaustive small scope for the filters: every 3x3 map over {0, 2, 4} with any subset of pixels invalid, window 3   *)
(* (centre pixel) and window 2 (even, asymmetric placement): the order statistic is total, the median is enclosed by   *)
(* the extreme valid values, a constant window is a fixpoint, and an invalid centre is never filtered.                *)
EXTENDS Filter, TLC
VARIABLES e, phase
Vals == {0, 2, 4}
Init == /\ phase = 0
        /\ \E b \in [1..3 -> [1..3 -> BOOLEAN]], w \in {2, 3} :
              e = [rows |-> 3, cols |-> 3, w |-> w, mode |-> "exact", d |-> [r \in 1..3 |-> [c \in 1..3 |-> 0]], bad |-> b]
\* values: the four pixels of the 2x2 window of (2,2) and the rest of its 3x3 window vary, symmetric corners are tied
Next == /\ phase = 0 /\ phase' = 1
        /\ \E a \in Vals, b \in Vals, c \in Vals, d \in Vals, f \in Vals, g \in Vals :
              e' = [e EXCEPT !.d = <<<<a, b, f>>, <<c, d, g>>, <<f, g, a>>>>]
C == IF e.w = 3 THEN <<2, 2>> ELSE <<2, 2>>          \* a pixel whose window fits for both widths
S == WinCells(e, C[1], C[2])
Live == ~e.bad[C[1]][C[2]]
T_Fits == WinFits(e, C[1], C[2]) /\ (e.w = 3 => ~WinFits(e, 1, 1)) /\ (e.w = 2 => ~WinFits(e, 1, 1)) /\ (e.w = 2 => WinFits(e, 3, 3))
T_KthTotal == Live => \A k \in 1..Cardinality(S) : Kth(e, S, k) \in {e.d[x[1]][x[2]] : x \in S}
T_KthMonotone == Live => \A k \in 1..(Cardinality(S) - 1) : Kth(e, S, k) <= Kth(e, S, k + 1)
T_MedianEnclosed == Live => \A o \in 0..8 : MedianOk(e, C[1], C[2], o) => (MinVal(e, S) <= o /\ o <= MaxVal(e, S))
T_MedianExists == Live => \E o \in 0..4 : MedianOk(e, C[1], C[2], o)
T_MedianUnique == Live => \A o1 \in 0..4, o2 \in 0..4 : (MedianOk(e, C[1], C[2], o1) /\ MedianOk(e, C[1], C[2], o2)) => o1 = o2
T_ConstantFixpoint == (Live /\ \A x \in S : e.d[x[1]][x[2]] = e.d[C[1]][C[2]]) =>
                         (MedianOk(e, C[1], C[2], e.d[C[1]][C[2]]) /\ \A o \in 0..4 : BilateralOk(e, C[1], C[2], o) => o = e.d[C[1]][C[2]])
=============================================================================
