------------------------------ MODULE MC_Input ------------------------------
(* Generators and theorems for the input rules.                                                                             *)
(*  mode "roi"   : every ROI on a 5 x 4 raster (first/last column in -3..7, rows in -3..6, margins in Margins^4): window      *)
(*                 theorems (inside the image, contains the clipped ROI, refused iff entirely outside), each case emitted.   *)
(*  mode "pair"  : every subset of at most MaxFaults faults of the dataset-pair contract, emitted with the verdict.          *)
(*  mode "section": every subset of at most MaxFaults faults of the input-section contract.                                  *)
EXTENDS PandoraInput, Json, TLC
CONSTANTS Mode, Margins, MaxFaults
VARIABLES x, phase
W == 5
H == 4
RoiSeeds == {[fc |-> a, lc |-> b, W |-> W, H |-> H, fr |-> 0, lr |-> 0, ml |-> 0, mu |-> 0, mr |-> 0, md |-> 0] : a \in -3..7, b \in -3..7}
Init == /\ phase = 0
        /\ CASE Mode = "roi" -> x \in {q \in RoiSeeds : q.fc <= q.lc}
             [] Mode = "pair" -> x \in {[fl |-> f, fr |-> {}, fp |-> {}] : f \in {s \in SUBSET DatasetFaults : Cardinality(s) <= MaxFaults}}
             [] OTHER -> x \in {[f |-> s] : s \in {t \in SUBSET SectionFaults : Cardinality(t) <= MaxFaults}}
Next == /\ phase = 0 /\ phase' = 1
        /\ CASE Mode = "roi" -> \E a \in -3..6, b \in -3..6, l \in Margins, u \in Margins, r \in Margins, d \in Margins :
                                   a <= b /\ x' = [x EXCEPT !.fr = a, !.lr = b, !.ml = l, !.mu = u, !.mr = r, !.md = d]
             [] Mode = "pair" -> \E g \in {s \in SUBSET DatasetFaults : Cardinality(s) <= 1}, h \in SUBSET PairFaults :
                                   x' = [x EXCEPT !.fr = g, !.fp = h]
             [] OTHER -> x' = x
Done == phase = 1
Emit == Done => PrintT(<<"BEH", ToJson(CASE Mode = "roi" -> [roi |-> x, refused |-> RoiRefused(x), window |-> IF RoiRefused(x) THEN <<>> ELSE RoiWindow(x)]
                                         [] Mode = "pair" -> [fl |-> x.fl, fr |-> x.fr, fp |-> x.fp, accepted |-> PairAccepted(x.fl, x.fr, x.fp)]
                                         [] OTHER -> [f |-> x.f, accepted |-> SectionAccepted(x.f)])>>)
\* window theorems
T_WindowInside == (Done /\ Mode = "roi" /\ ~RoiRefused(x)) =>
                     LET w == RoiWindow(x) IN w[1] >= 0 /\ w[2] >= 0 /\ w[3] >= 1 /\ w[4] >= 1 /\ w[1] + w[3] <= W /\ w[2] + w[4] <= H
T_WindowContainsRoi == (Done /\ Mode = "roi" /\ ~RoiRefused(x)) =>
                     LET w == RoiWindow(x)
                     IN \A c \in Max2i(x.fc, 0)..Min2i(x.lc, W - 1) : c >= w[1] /\ c < w[1] + w[3]
T_RefusedIffOutside == (Done /\ Mode = "roi") =>
                     (RoiRefused(x) <=> (x.lc + x.mr < 0 \/ x.fc - x.ml > W - 1 \/ x.lr + x.md < 0 \/ x.fr - x.mu > H - 1))
T_AcceptIffNoFault == (Done /\ Mode = "pair") => (PairAccepted(x.fl, x.fr, x.fp) <=> (x.fl \cup x.fr \cup x.fp = {}))
T_Emit == Emit
=============================================================================
