INIT Init
NEXT Next
CONSTANTS
  Mode = "roi"
  Margins = {0, 1, 3}
  MaxFaults = 3
INVARIANT T_WindowInside
INVARIANT T_WindowContainsRoi
INVARIANT T_RefusedIffOutside
INVARIANT T_AcceptIffNoFault
INVARIANT T_Emit
CHECK_DEADLOCK FALSE
