INIT Init
NEXT Next
CONSTANTS
  Mode = "section"
  Margins = {0, 2}
  MaxFaults = 2
INVARIANT T_WindowInside
INVARIANT T_WindowContainsRoi
INVARIANT T_RefusedIffOutside
INVARIANT T_AcceptIffNoFault
INVARIANT T_Emit
CHECK_DEADLOCK FALSE
