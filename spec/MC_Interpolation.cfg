INIT Init
NEXT Next
INVARIANT T_NonEmpty
INVARIANT T_Frame
INVARIANT T_FromValid
INVARIANT T_NoValidNoChange
INVARIANT T_BitsSwapped
CHECK_DEADLOCK FALSE
