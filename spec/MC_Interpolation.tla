-------------------------- MODULE MC_Interpolation --------------------------
(* Exhaustive small scope for the filling passes: every 1 x 4 layout over {valid, invalid, occluded, mismatched},      *)
(* disparities over {0, 8, 16} (scale 8), the four passes: only flagged pixels may change, a fill comes from valid     *)
(* pixels (so it is enclosed by the valid range of the map), no valid pixel in sight => nothing changes, and a pixel    *)
(* never ends with both 8/9 and its filled counterpart.                                                              *)
EXTENDS Interpolation, TLC
VARIABLES e, s, phase
Flags == {0, 64, 256, 512}
Passes == {"mc_cnn_occlusion", "mc_cnn_mismatch", "sgm_mismatch", "sgm_occlusion"}
Init == /\ phase = 0
        /\ \E p \in Passes, v \in [1..4 -> Flags] :
              /\ e = [pass |-> p, rows |-> 1, cols |-> 4]
              /\ s = [d |-> <<<<0, 0, 0, 0>>>>, vm |-> <<v>>]
Next == /\ phase = 0 /\ phase' = 1 /\ UNCHANGED e
        /\ \E dd \in [1..4 -> {0, 8, 16}] : s' = [s EXCEPT !.d = <<dd>>]
Cols == 1..4
Flagged(c) == Has(s, 1, c, 8) \/ Has(s, 1, c, 9)
T_NonEmpty == \A c \in Cols : Expected(e, s, 1, c) # {}
T_Frame == \A c \in Cols : ~Flagged(c) => Expected(e, s, 1, c) = Same(s, 1, c)
T_FromValid == \A c \in Cols : \A o \in Expected(e, s, 1, c) :
                  (o # <<s.d[1][c], s.vm[1][c]>> /\ o[1] # s.d[1][c]) =>
                     (ValidRange(e, s) # {} /\ \E lo \in ValidRange(e, s), hi \in ValidRange(e, s) : lo <= o[1] /\ o[1] <= hi)
T_NoValidNoChange == (ValidRange(e, s) = {}) =>
                        \A c \in Cols : \A o \in Expected(e, s, 1, c) : o[1] = s.d[1][c] /\ ({4, 5} \cap Bits(o[2]) = {})
T_BitsSwapped == \A c \in Cols : \A o \in Expected(e, s, 1, c) :
                    /\ ~({8, 4} \subseteq Bits(o[2]) /\ 4 \notin Bits(s.vm[1][c]))
                    /\ ~({9, 5} \subseteq Bits(o[2]) /\ 5 \notin Bits(s.vm[1][c]))
                    /\ ~({8, 9} \subseteq Bits(o[2]))
=============================================================================
