INIT Init
NEXT Next
CONSTANTS
  CheckTable <- GenCheckTable
  RunTable <- GenRunTable
INVARIANT SameRejection
INVARIANT SameState
INVARIANT Deterministic
INVARIANT OnlyMultiscaleConditional
CHECK_DEADLOCK FALSE
