----------------------------- MODULE MC_Language -----------------------------
(* Unbounded language equivalence (C01): synchronous product of the documented automaton DocDelta with *)
(* the transition tables extracted from the code, one symbol (step kind) at a time.  The product has    *)
(* fewer than 50 reachable states, so the invariants below cover pipelines of EVERY length.             *)
(*  mode "check"  : the check table                                                                    *)
(*  mode "last"   : the run table at the last scale (a transition whose condition is_not_last_scale    *)
(*                  fails is skipped silently, the machine stays where it is)                          *)
(*  mode "coarse" : the run table at a coarser scale (multiscale ends the scale: the machine must be   *)
(*                  back in "begin", which is where the next scale starts)                             *)
EXTENDS PandoraMachine, MC_Tables
VARIABLES mode, dq, cq, ended

Modes == {"check", "last", "coarse"}
Tbl(m) == IF m = "check" THEN CheckTable ELSE RunTable

CodeDelta(m, q, k) ==
   LET en == {t \in Tbl(m) : t.trigger = k /\ t.source = q}
   IN IF en = {} THEN {"reject"}
      ELSE {IF t.cond # "none" /\ m = "last" THEN q ELSE t.dest : t \in en}

Init == mode \in Modes /\ dq = "begin" /\ cq = "begin" /\ ended = FALSE
Next == /\ dq # "reject" /\ cq # "reject" /\ ~ended
        /\ \E k \in Kinds :
             /\ dq' = DocDelta(dq, k)
             /\ cq' \in CodeDelta(mode, cq, k)
             /\ ended' = (mode = "coarse" /\ k = "multiscale" /\ dq' # "reject")
        /\ UNCHANGED mode
\* same language: the code rejects exactly when the documentation does
SameRejection == (dq = "reject") <=> (cq = "reject")
\* same state while both accept (so that the two automata stay synchronised on every continuation);
\* at a coarse scale the multiscale step must bring the machine back to "begin"
SameState == (dq # "reject" /\ cq # "reject") => (IF ended THEN cq = "begin" ELSE cq = dq)
\* deterministic tables: never two different destinations for one symbol
Deterministic == \A m \in Modes : \A q \in MStates : \A k \in Kinds : Cardinality(CodeDelta(m, q, k)) = 1
\* the only conditional transition is the multiscale one
OnlyMultiscaleConditional == \A t \in RunTable \cup CheckTable : t.cond # "none" => (t.trigger = "multiscale" /\ t.cond = "is_not_last_scale" /\ t \in RunTable)
=============================================================================
