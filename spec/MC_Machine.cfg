INIT Init
NEXT Next
CONSTANTS
  CheckTable <- GenCheckTable
  RunTable <- GenRunTable
  MaxLen = 4
  MaxOps = 3
  MaxScales = 3
INVARIANT InvAcceptIffDocPath
INVARIANT InvSequencingErrorNamed
INVARIANT InvCheckVisitsAll
INVARIANT InvRunsAsWritten
INVARIANT InvBackToInitial
INVARIANT InvTypeOK
CHECK_DEADLOCK FALSE
