----------------------------- MODULE MC_Machine -----------------------------
(* Bounded exhaustive model of PandoraMachine: every pipeline of length <= MaxLen over the ten kinds  *)
(* (at most one ill-parameterised step), every history of <= MaxOps check/run operations on one        *)
(* machine object (first a check of any pipeline, then re-checks / runs of it with every number of     *)
(* scales <= MaxScales).  Tables come from the generated module MC_Tables (binding B1).                *)
EXTENDS PandoraMachine, MC_Tables
CONSTANTS MaxLen, MaxOps, MaxScales
VARIABLES s, ops

\* fl: the validation steps of the pipeline are configured with interpolated_disparity (filling sub-steps)
MkPipe(n, ks, bad, fl) == [i \in 1..n |-> [kind |-> ks[i], sfx |-> 0, ok |-> (i # bad), fill |-> (fl /\ ks[i] = "validation")]]

Init == s = Idle0 /\ ops = 0

NewCheck  == /\ s.pc = "idle" /\ ops = 0
             /\ \E n \in 1..MaxLen : \E ks \in [1..n -> Kinds] : \E bad \in 0..n : \E fl \in BOOLEAN :
                   \E x \in CheckBegin(s, MkPipe(n, ks, bad, fl)) : s' = x.st
             /\ ops' = ops + 1
ReCheck   == /\ s.pc = "idle" /\ ops > 0 /\ ops < MaxOps
             /\ \E x \in CheckBegin(s, s.cur) : s' = x.st
             /\ ops' = ops + 1
NewRun    == /\ s.pc = "idle" /\ ops > 0 /\ ops < MaxOps /\ DocAccepts(s.cur)
             /\ \E ns \in (IF MsIdx(s.cur) > 0 THEN 2..MaxScales ELSE {1}) :
                   \E x \in RunBegin(s, s.cur, ns) : s' = x.st
             /\ ops' = ops + 1
Step      == /\ \E x \in Internal(s) : s' = x.st
             /\ UNCHANGED ops
Next == NewCheck \/ ReCheck \/ NewRun \/ Step

InvAcceptIffDocPath     == AcceptIffDocPath(s)
InvSequencingErrorNamed == SequencingErrorNamed(s)
InvCheckVisitsAll       == CheckVisitsAll(s)
InvRunsAsWritten        == RunsAsWritten(s)
InvBackToInitial        == BackToInitial(s)
InvTypeOK               == TypeOK(s)
\* vacuity witnesses: each of these must be REACHABLE (checked by separate "expect violation" configs)
NeverRan       == ~(s.pc = "idle" /\ s.out = "ran" /\ s.ns = 3 /\ HasValidation(s.cur))
NeverFilled    == ~(s.pc = "run" /\ s.sub = "fillR" /\ s.ns = 2)
NeverRejected  == ~(s.pc = "idle" /\ s.out = "rejected" /\ s.err = "sequencing")
=============================================================================
