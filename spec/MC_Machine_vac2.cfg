INIT Init
NEXT Next
CONSTANTS
  CheckTable <- GenCheckTable
  RunTable <- GenRunTable
  MaxLen = 2
  MaxOps = 1
  MaxScales = 2
INVARIANT NeverRejected
CHECK_DEADLOCK FALSE
