INIT Init
NEXT Next
CONSTANTS
  CheckTable <- GenCheckTable
  RunTable <- GenRunTable
  MaxLen = 4
  MaxOps = 3
  MaxScales = 3
INVARIANT NeverFilled
CHECK_DEADLOCK FALSE
