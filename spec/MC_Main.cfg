INIT Init
NEXT Next
INVARIANT InvNoProductBeforeRun
INVARIANT InvRefusedWritesNothing
INVARIANT InvDone
INVARIANT InvRightIffValidation
CHECK_DEADLOCK FALSE
