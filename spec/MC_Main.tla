------------------------------ MODULE MC_Main ------------------------------
(* Exhaustive model of the command-line protocol: every outcome of the two checks, with / without validation, 0-2 bands.     *)
EXTENDS PandoraMain
VARIABLE s
Init == s = Init0
Next == \/ \E ok \in BOOLEAN : \E t \in CheckConf(s, ok) : s' = t
        \/ \E t \in Read(s) : s' = t
        \/ \E ok \in BOOLEAN : \E t \in CheckDatasets(s, ok) : s' = t
        \/ \E hv \in BOOLEAN, nl \in 0..2, nr \in 0..2 : \E t \in Run(s, hv, nl, nr) : s' = t
        \/ \E t \in Save(s) : s' = t
        \/ \E t \in SaveConfig(s) : s' = t
InvNoProductBeforeRun == NoProductBeforeRun(s)
InvRefusedWritesNothing == RefusedWritesNothing(s)
InvDone == DoneHasExactlyExpected(s)
InvRightIffValidation == RightIffValidation(s)
=============================================================================
