------------------------------ MODULE MC_Manual ------------------------------
(* Exhaustive model of the step-by-step API: every sequence of at most MaxTrig triggers over the ten kinds between  *)
(* run_prepare (every number of scales <= MaxScales, with / without a validation step in the configuration) and     *)
(* run_exit, sessions repeated on the same machine object; also triggers on a machine that was never prepared.      *)
EXTENDS PandoraManual, MC_Tables
CONSTANTS MaxTrig, MaxScales
VARIABLES m, n, acc      \* acc: kinds of the triggers that took effect since the last run_prepare, in order

Init == m = Manual0 /\ n = 0 /\ acc = <<>>
DoPrepare == /\ \E ns \in 1..MaxScales : \E r \in BOOLEAN : \E x \in Prepare(m, ns, r) : m' = x.st
             /\ n' = 0 /\ acc' = <<>>
DoTrigger == /\ n < MaxTrig
             /\ \E k \in Kinds : \E x \in Trigger(m, k) :
                   /\ m' = x.st
                   /\ acc' = IF x.lab.res = "ok" THEN Append(acc, k) ELSE acc
             /\ n' = n + 1
DoExit    == /\ \E x \in Exit(m) : m' = x.st
             /\ n' = 0 /\ acc' = <<>>
Next == DoPrepare \/ DoTrigger \/ DoExit

InvTriggersAsDocumented == TriggersAsDocumented(m)
InvExitRestores         == ExitRestores(m)
InvManualTypeOK         == ManualTypeOK(m)
\* what took effect is a prefix-closed walk of the documented automaton, restarted by every multiscale step: nothing is
\* reordered or skipped whatever the caller tried in between
RECURSIVE WalkFrom(_, _, _)
WalkFrom(q, s, i) == IF i > Len(s) THEN q
                     ELSE IF s[i] = "multiscale" THEN (IF q = "disp_map" THEN WalkFrom("begin", s, i + 1) ELSE "reject")
                     ELSE IF DocDelta(q, s[i]) = "reject" THEN "reject" ELSE WalkFrom(DocDelta(q, s[i]), s, i + 1)
InvEffectsFollowDoc == (m.loaded /\ Len(acc) > 0 /\ acc[1] = "matching_cost") => WalkFrom("begin", acc, 1) = m.ms
\* vacuity witnesses (expected to be violated)
NeverSecondScale == ~(m.loaded /\ m.ns = 2 /\ m.scale = 0 /\ m.ms = "disp_map" /\ m.rmap)
NeverNoop        == ~(\E x \in Trigger(m, "multiscale") : x.lab.res = "noop")
=============================================================================
