INIT Init
NEXT Next
CONSTANTS
  CheckTable <- GenCheckTable
  RunTable <- GenRunTable
  MaxTrig = 2
  MaxScales = 2
INVARIANT T_Emit
INVARIANT T_ExitInitial
CHECK_DEADLOCK FALSE
