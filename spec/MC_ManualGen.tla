---------------------------- MODULE MC_ManualGen ----------------------------
(* Generator (binding B2, specification -> code) for the step-by-step API: TLC enumerates EVERY session                *)
(*   run_prepare(ns, rmap); Len triggers over the ten kinds; run_exit                                                   *)
(* with Len <= MaxTrig, computes what PandoraManual.tla says each trigger does (result, automaton state, scale, sides)  *)
(* and emits one BEH line per complete session; the harness replays each session into a real PandoraMachine object and  *)
(* compares trigger by trigger.                                                                                         *)
EXTENDS PandoraManual, MC_Tables, Json
CONSTANTS MaxTrig, MaxScales
VARIABLES m, hist, done

\* the free triggers start in each documented state: a legal prefix is triggered first (and replayed / compared like the rest)
PrefixSet == {<<>>, <<"matching_cost">>, <<"matching_cost", "disparity">>}
Rec(k, x) == [kind |-> k, res |-> x.lab.res, sides |-> x.lab.sides, ms |-> x.st.ms, scale |-> x.st.scale]
RECURSIVE After(_, _, _, _)
After(mm, hh, pre, i) == IF i > Len(pre) THEN [m |-> mm, h |-> hh]
                         ELSE LET x == CHOOSE y \in Trigger(mm, pre[i]) : TRUE IN After(x.st, Append(hh, Rec(pre[i], x)), pre, i + 1)
VARIABLE npre
Init == /\ \E ns \in 1..MaxScales : \E r \in BOOLEAN : \E pre \in PrefixSet : \E x \in Prepare(Manual0, ns, r) :
              LET a == After(x.st, <<>>, pre, 1) IN m = a.m /\ hist = a.h /\ npre = Len(pre)
        /\ done = FALSE
DoTrigger == /\ ~done /\ Len(hist) < npre + MaxTrig /\ UNCHANGED npre
             /\ \E k \in Kinds : (k = "validation" => m.rmap) /\
                   \E x \in Trigger(m, k) :
                      /\ m' = x.st
                      /\ hist' = Append(hist, Rec(k, x))
             /\ UNCHANGED done
DoExit == /\ ~done /\ Len(hist) > npre /\ UNCHANGED npre
          /\ \E x \in Exit(m) : m' = x.st
          /\ done' = TRUE /\ UNCHANGED hist
Next == DoTrigger \/ DoExit

Emit == done => PrintT(<<"BEH", ToJson([ns |-> m.ns, rmap |-> m.rmap, trig |-> hist, npre |-> npre, ms |-> m.ms])>>)
T_Emit == Emit
T_ExitInitial == done => (m.ms = "begin" /\ ~m.loaded)
=============================================================================
