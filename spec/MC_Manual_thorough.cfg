INIT Init
NEXT Next
CONSTANTS
  CheckTable <- GenCheckTable
  RunTable <- GenRunTable
  MaxTrig = 8
  MaxScales = 4
INVARIANT InvTriggersAsDocumented
INVARIANT InvExitRestores
INVARIANT InvManualTypeOK
INVARIANT InvEffectsFollowDoc
CHECK_DEADLOCK FALSE
