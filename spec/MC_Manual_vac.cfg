INIT Init
NEXT Next
CONSTANTS
  CheckTable <- GenCheckTable
  RunTable <- GenRunTable
  MaxTrig = 6
  MaxScales = 3
INVARIANT InvTriggersAsDocumented
INVARIANT InvExitRestores
INVARIANT InvManualTypeOK
INVARIANT InvEffectsFollowDoc
INVARIANT NeverSecondScale
CHECK_DEADLOCK FALSE
