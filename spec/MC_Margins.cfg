SPECIFICATION Spec
CONSTANT MaxLen = 6
INVARIANT T_NonNegative
INVARIANT T_GlobalIsMax
INVARIANT T_KeysAreMarginSteps
PROPERTY Monotone
CHECK_DEADLOCK FALSE
