----------------------------- MODULE MC_Margins -----------------------------
(* Every accepted pipeline of length <= MaxLen over the margin-relevant step variants (windows 1/5/11, median 3/5,      *)
(* bilateral sig3 2/7/19, optimization, aggregation, refinement, confidence, validation) on 6x8 and 30x40 images:       *)
(* margins are non-negative, the global margin is the larger of the cumulative sum and each non-cumulative one, and    *)
(* appending a legal step never decreases it (monotonicity is an action property of the growing pipeline).             *)
EXTENDS Margins, TLC
CONSTANT MaxLen
VARIABLES p, shape
St(name, kind, method, win, fsize, sig3) == [name |-> name, kind |-> kind, method |-> method, win |-> win, fsize |-> fsize, sig3 |-> sig3]
Mc == {St("matching_cost", "matching_cost", "sad", w, 0, 0) : w \in {1, 5, 11}}
CvSteps(n) == {St("aggregation", "aggregation", "cbca", 0, 0, 0), St("optimization", "optimization", "x", 0, 0, 0),
               St("cost_volume_confidence", "cost_volume_confidence", "ambiguity", 0, 0, 0)}
DispSteps(n) == {St("refinement", "refinement", "vfit", 0, 0, 0), St("validation", "validation", "cca", 0, 0, 0)}
                \cup {St("filter", "filter", "median", 0, f, 0) : f \in {3, 5}}
                \cup {St("filter", "filter", "bilateral", 0, 0, g) : g \in {2, 7, 19}}
Rename(s, n) == [s EXCEPT !.name = IF n = 0 THEN s.kind ELSE s.kind \o "." \o ToString(n)]
Count(q, k) == Cardinality({i \in 1..Len(q) : q[i].kind = k})
HasDisp(q) == \E i \in 1..Len(q) : q[i].kind = "disparity"
Init == p = <<>> /\ shape \in {<<6, 8>>, <<30, 40>>}
Next == /\ Len(p) < MaxLen
        /\ UNCHANGED shape
        /\ \/ Len(p) = 0 /\ \E s \in Mc : p' = <<s>>
           \/ Len(p) > 0 /\ ~HasDisp(p) /\ \E s \in CvSteps(0) : p' = Append(p, Rename(s, Count(p, s.kind)))
           \/ Len(p) > 0 /\ ~HasDisp(p) /\ p' = Append(p, St("disparity", "disparity", "wta", 0, 0, 0))
           \/ HasDisp(p) /\ \E s \in DispSteps(0) : p' = Append(p, Rename(s, Count(p, s.kind)))
G(q) == Global(q, shape[1], shape[2], 1)
T_NonNegative == G(p) >= 0 /\ \A x \in Cumulatives(p, shape[1], shape[2], 1) \cup NonCumulatives(p, shape[1], shape[2], 1) : x[2] >= 0
T_GlobalIsMax == /\ G(p) >= SumCumul(p, shape[1], shape[2], 1)
                 /\ \A x \in NonCumulatives(p, shape[1], shape[2], 1) : G(p) >= x[2]
                 /\ (G(p) = SumCumul(p, shape[1], shape[2], 1) \/ \E x \in NonCumulatives(p, shape[1], shape[2], 1) : G(p) = x[2])
T_KeysAreMarginSteps == {x[1] : x \in Cumulatives(p, shape[1], shape[2], 1) \cup NonCumulatives(p, shape[1], shape[2], 1)}
                          = {p[i].name : i \in {j \in 1..Len(p) : p[j].kind \in CumulKinds \cup {"filter"}}}
Monotone == [][G(p') >= G(p)]_<<p, shape>>
Spec == Init /\ [][Next]_<<p, shape>>
=============================================================================
