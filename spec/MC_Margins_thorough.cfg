SPECIFICATION Spec
CONSTANT MaxLen = 8
INVARIANT T_NonNegative
INVARIANT T_GlobalIsMax
INVARIANT T_KeysAreMarginSteps
PROPERTY Monotone
CHECK_DEADLOCK FALSE
