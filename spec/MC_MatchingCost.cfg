INIT Init
NEXT Next
CONSTANT Thorough = FALSE
INVARIANT T_Coherent
INVARIANT T_Border
INVARIANT T_IntervalIndependent
INVARIANT T_Mirror
INVARIANT T_CensusBound
INVARIANT T_NonNegative
INVARIANT T_ZeroOnIdentical
CHECK_DEADLOCK FALSE
