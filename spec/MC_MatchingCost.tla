--------------------------- MODULE MC_MatchingCost ---------------------------
(* Small-scope theorems of MatchingCost.tla / Criteria.tla, checked exhaustively by TLC over every problem  *)
(* of the scope below (each initial state is one stereo problem; there is no transition):                  *)
(*  scope A: 1 x 4 images over {0,1}, window 1, at most one no-data / invalid pixel per image anywhere,     *)
(*           every interval within -2..2, subpix 1 and 2, every measure;                                   *)
(*  scope B: 3 x 5 fixed images, window 3, every single-pixel mask layout, every interval, subpix 1 and 2. *)
EXTENDS Criteria, TLC
CONSTANT Thorough
VARIABLES P, phase

Row4 == [1..4 -> {0, 1}]
Masks(rows, cols) == {[r \in 1..rows |-> [c \in 1..cols |-> 0]]}
   \cup {[r \in 1..rows |-> [c \in 1..cols |-> IF r = rr /\ c = cc THEN v ELSE 0]] : rr \in 1..rows, cc \in 1..cols, v \in {1, 2}}
Intervals == {<<a, b>> \in (-2..2) \X (-2..2) : a <= b}
ConstGrid(rows, cols, v) == [r \in 1..rows |-> [c \in 1..cols |-> v]]

ImgB1 == <<<<0, 1, 2, 1, 0>>, <<1, 3, 0, 2, 1>>, <<2, 0, 1, 3, 0>>>>
ImgB2 == <<<<1, 1, 0, 2, 3>>, <<0, 2, 3, 1, 1>>, <<2, 2, 1, 0, 3>>>>

\* phase 0: the structural part of the problem (scope, subpix, measure, interval); phase 1: images and masks
Seed(scope, s, m, iv) ==
   LET rows == IF scope = "A" THEN 1 ELSE 3
       cols == IF scope = "A" THEN 4 ELSE 5
   IN [rows |-> rows, cols |-> cols, win |-> IF scope = "A" THEN 1 ELSE 3, s |-> s, measure |-> m, band |-> 1,
       L |-> <<ImgB1>>, R |-> <<ImgB2>>, mL |-> ConstGrid(rows, cols, 0), mR |-> ConstGrid(rows, cols, 0),
       dmin8 |-> ConstGrid(rows, cols, 8 * iv[1]), dmax8 |-> ConstGrid(rows, cols, 8 * iv[2]), gmin |-> iv[1], gmax |-> iv[2]]
Init == /\ phase = 0
        /\ P \in {Seed("A", s, m, iv) : s \in {1, 2}, m \in (IF Thorough THEN {"sad", "ssd"} ELSE {"sad"}), iv \in Intervals}
               \cup {Seed("B", s, m, iv) : s \in {1, 2}, m \in {"sad", "census"}, iv \in Intervals}
Fill == /\ phase = 0 /\ phase' = 1
        /\ IF P.rows = 1
           THEN \E l \in Row4, rr \in Row4, ml \in Masks(1, 4), mr \in Masks(1, 4) :
                   /\ (Thorough \/ ml = ConstGrid(1, 4, 0) \/ mr = ConstGrid(1, 4, 0))
                   /\ P' = [P EXCEPT !.L = <<<<l>>>>, !.R = <<<<rr>>>>, !.mL = ml, !.mR = mr]
           ELSE \E ml \in Masks(3, 5), mr \in Masks(3, 5) : P' = [P EXCEPT !.mL = ml, !.mR = mr]
Next == Fill

Pixels == (1..P.rows) \X (1..P.cols)
Mirror(Q) == [Q EXCEPT !.L = Q.R, !.R = Q.L, !.mL = Q.mR, !.mR = Q.mL,
                       !.dmin8 = ConstGrid(Q.rows, Q.cols, -8 * Q.gmax), !.dmax8 = ConstGrid(Q.rows, Q.cols, -8 * Q.gmin),
                       !.gmin = -Q.gmax, !.gmax = -Q.gmin]
Wider(Q) == [Q EXCEPT !.gmin = Q.gmin - 1, !.gmax = Q.gmax + 1]

\* C04: the three characterisations of an invalid pixel coincide (a theorem about the NaN rule and the bit causes)
T_Coherent == \A x \in Pixels : IsInvalidFlag(MatchingBits(P, x[1], x[2])) <=> AllNaN(P, x[1], x[2])
\* C04: border pixels carry bit 0 only, and no undocumented bit is ever produced
T_Border   == \A x \in Pixels : (Border(P, x[1], x[2]) => MatchingBits(P, x[1], x[2]) = {0})
                                /\ MatchingBits(P, x[1], x[2]) \subseteq {0, 1, 2, 6, 7}
\* C09: the cost of (pixel, disparity) does not depend on which other disparities were requested
T_IntervalIndependent ==
   \A x \in Pixels : \A D \in Samples(Wider(P)) :
      Cost(Wider(P), x[1], x[2], D) = IF D \in Samples(P) THEN Cost(P, x[1], x[2], D) ELSE NaN
\* C08: the right problem is the mirrored left problem (integer disparities, scalar interval)
T_Mirror ==
   \A x \in Pixels : \A d \in G(P) :
      LET c2 == x[2] + d
      IN (c2 >= 1 /\ c2 <= P.cols) =>
           Cost(P, x[1], x[2], P.s * d) = Cost(Mirror(P), x[1], c2, -(P.s * d))
T_CensusBound == P.measure = "census" =>
   \A x \in Pixels : \A D \in Samples(P) : Cost(P, x[1], x[2], D) = NaN \/ Cost(P, x[1], x[2], D) \in 0..(P.win * P.win - 1)
T_NonNegative == \A x \in Pixels : \A D \in Samples(P) : Cost(P, x[1], x[2], D) >= 0
\* identical images: zero cost at disparity 0 wherever it is computable
T_ZeroOnIdentical == (P.L = P.R /\ 0 \in Samples(P)) =>
   \A x \in Pixels : Cost(P, x[1], x[2], 0) \in {0, NaN}
\* vacuity witnesses (must be violated: used by the *_vac config)
V_NoComputable == \A x \in Pixels : AllNaN(P, x[1], x[2])
=============================================================================
