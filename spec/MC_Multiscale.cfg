INIT Init
NEXT Next
INVARIANT T_EnclosesOwn
INVARIANT T_WholeWhenInvalidOrBorder
INVARIANT T_Ordered
INVARIANT T_MargeWidens
INVARIANT T_Shapes
INVARIANT T_CoarseExact
CHECK_DEADLOCK FALSE
