---------------------------- MODULE MC_Multiscale ----------------------------
(* Exhaustive small scope for the next-level range: every 3 x 3 coarse map over {-1, 0, 1} (scale 1) with any pixel invalid,    *)
(* marge 0..1, window 1 and 3, whole interval [-2, 2]: the range handed over by a valid interior pixel encloses its own           *)
(* disparity, lies within the whole interval widened by marge, widens with marge and with the window; invalid and border          *)
(* pixels hand over the whole interval.  Pyramid shapes shrink by the factor, one ceiling per level.                              *)
EXTENDS Multiscale, TLC
VARIABLES e, phase
Init == /\ phase = 0
        /\ \E b \in [1..3 -> [1..3 -> BOOLEAN]], mg \in 0..1, w \in {1, 3} :
              e = [rows |-> 3, cols |-> 3, sf |-> 2, marge |-> mg, win |-> w, gmin |-> -2, gmax |-> 2, k |-> 1,
                   d |-> [r \in 1..3 |-> [c \in 1..3 |-> 0]], bad |-> b]
Next == /\ phase = 0 /\ phase' = 1
        /\ \E a \in {-1, 0, 1}, b \in {-1, 0, 1}, c \in {-1, 0, 1}, d \in {-1, 0, 1}, f \in {-1, 0, 1} :
              e' = [e EXCEPT !.d = <<<<a, b, c>>, <<d, f, a>>, <<b, c, d>>>>]
P == (1..3) \X (1..3)
T_EnclosesOwn == \A x \in P : (~e.bad[x[1]][x[2]]) => (RangeOf(e, x[1], x[2])[1] <= e.d[x[1]][x[2]] /\ e.d[x[1]][x[2]] <= RangeOf(e, x[1], x[2])[2])
T_WholeWhenInvalidOrBorder == \A x \in P : (e.bad[x[1]][x[2]] \/ ~Interior(e, x[1], x[2])) => RangeOf(e, x[1], x[2]) = <<e.gmin, e.gmax>>
T_Ordered == \A x \in P : RangeOf(e, x[1], x[2])[1] <= RangeOf(e, x[1], x[2])[2]
T_MargeWidens == \A x \in P : LET a == RangeOf(e, x[1], x[2])  b == RangeOf([e EXCEPT !.marge = e.marge + 1], x[1], x[2])
                              IN b[1] <= a[1] /\ b[2] >= a[2]
T_Shapes == \A n \in {16, 17, 33} : \A sf \in {2, 3} : ShapeAt(n, sf, 1) * sf >= n /\ ShapeAt(n, sf, 1) * sf < n + sf /\ ShapeAt(n, sf, 2) = CeilDiv(CeilDiv(n, sf), sf)
T_CoarseExact == CoarseBoundOk(-8, 2, 2, -2) /\ ~CoarseBoundOk(-8, 2, 2, -4) /\ CoarseBoundOk(-7, 2, 1, -3) /\ CoarseBoundOk(-7, 2, 1, -4) /\ ~CoarseBoundOk(-7, 2, 1, -7)
=============================================================================
