INIT Init
NEXT Next
CONSTANTS
  NIter = 3
  RequireRaceFree = TRUE
INVARIANT ScheduleIndependent
CHECK_DEADLOCK FALSE
