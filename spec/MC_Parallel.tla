----------------------------- MODULE MC_Parallel -----------------------------
(* Two or three iterations over three cells, each iteration one of a few small programs; all interleavings.  mem is the shared  *)
(* memory, acc[i] what iteration i has read so far (its private state), pcs[i] its program counter.  A write stores           *)
(* 10 * i + acc[i] (a value that depends on the iteration and on what it read).                                                  *)
EXTENDS PandoraParallel, TLC
CONSTANTS NIter, RequireRaceFree
VARIABLES progs, mem, acc, pcs
Cells == {"a", "b", "c"}
Programs == {<<<<"r", "a">>, <<"w", "a">>>>, <<<<"r", "b">>, <<"w", "b">>>>, <<<<"w", "c">>>>, <<<<"r", "a">>, <<"w", "b">>>>,
             <<<<"r", "c">>, <<"r", "a">>, <<"w", "c">>>>, <<<<"r", "b">>>>}
Iters == 1..NIter
Init == /\ progs \in [Iters -> Programs]
        /\ (RequireRaceFree => RaceFree(progs))
        /\ mem = [c \in Cells |-> 0] /\ acc = [i \in Iters |-> 0] /\ pcs = [i \in Iters |-> 1]
StepOf(i) == /\ pcs[i] <= Len(progs[i])
             /\ LET op == progs[i][pcs[i]]
                IN IF op[1] = "r" THEN acc' = [acc EXCEPT ![i] = acc[i] + mem[op[2]] + 1] /\ mem' = mem
                   ELSE mem' = [mem EXCEPT ![op[2]] = 10 * i + acc[i]] /\ acc' = acc
             /\ pcs' = [pcs EXCEPT ![i] = pcs[i] + 1] /\ UNCHANGED progs
Next == \E i \in Iters : StepOf(i)
Done == \A i \in Iters : pcs[i] > Len(progs[i])
\* the sequential execution (iteration 1, then 2, ...), computed functionally
RECURSIVE RunProg(_, _, _, _, _)
RunProg(p, k, i, m, a) == IF k > Len(p) THEN m
                          ELSE IF p[k][1] = "r" THEN RunProg(p, k + 1, i, m, a + m[p[k][2]] + 1)
                          ELSE RunProg(p, k + 1, i, [m EXCEPT ![p[k][2]] = 10 * i + a], a)
RECURSIVE SeqFrom(_, _)
SeqFrom(i, m) == IF i > NIter THEN m ELSE SeqFrom(i + 1, RunProg(progs[i], 1, i, m, 0))
Sequential == SeqFrom(1, [c \in Cells |-> 0])
\* C18: whatever the schedule, the final memory is the sequential one
ScheduleIndependent == Done => mem = Sequential
=============================================================================
