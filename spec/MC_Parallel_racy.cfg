INIT Init
NEXT Next
CONSTANTS
  NIter = 2
  RequireRaceFree = FALSE
INVARIANT ScheduleIndependent
CHECK_DEADLOCK FALSE
