INIT Init
NEXT Next
INVARIANT T_Bound
INVARIANT T_NotWorse
INVARIANT T_VfitLine
INVARIANT T_QuadVertex
INVARIANT T_FlatNoShift
CHECK_DEADLOCK FALSE
