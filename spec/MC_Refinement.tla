---------------------------- MODULE MC_Refinement ----------------------------
(* Exhaustive over every cost triple in {0..4, NaN}^3, min and max, both methods: the refinement operators are   *)
(* total, move the disparity by at most half a sample, are never worse than the sample's cost, and the two        *)
(* descriptions of the optimum (vertex formula vs the three-point fit) agree.                                     *)
EXTENDS Refinement, TLC
VARIABLES t, type, method
Vals == (0..4) \cup {NaN}
Init == t \in Vals \X Vals \X Vals /\ type \in {"min", "max"} /\ method \in {"vfit", "quadratic"}
Next == UNCHANGED <<t, type, method>>
Live == t[2] # NaN /\ ~Stopped(t, type)
T_Bound    == Live => (Shift(method, t, type)[2] > 0 /\ RatAbsLeHalf(Shift(method, t, type)))
T_NotWorse == Live => (FitCost(method, t, type)[2] > 0 /\ NotWorse(method, t, type))
\* V-fit: the apex lies on the line of slope +-a through the higher neighbour (the construction of refinement.rst)
T_VfitLine == (Live /\ method = "vfit" /\ Max2(U0(t, type), U2(t, type)) > 0) =>
   LET a == Max2(U0(t, type), U2(t, type))  x == VfitShift(t, type)
       hiRight == U2(t, type) >= U0(t, type)
       hiC == IF hiRight THEN t[3] ELSE t[1]
       \* apex = point of the line of slope +-a through the higher neighbour, at horizontal distance 1 -+ x from it
       dist == IF hiRight THEN RatSub(Int2Rat(1), x) ELSE RatAdd(Int2Rat(1), x)
   IN RatEq(VfitCost(t, type), RatSub(Int2Rat(hiC), RatMul(Int2Rat(Sgn(type) * a), dist)))
\* parabola: value of alpha x^2 + beta x + c1 at the vertex
T_QuadVertex == (Live /\ method = "quadratic" /\ U0(t, type) + U2(t, type) > 0) =>
   LET x == QuadShift(t, type)
       alpha == <<t[1] - 2 * t[2] + t[3], 2>>  beta == <<t[3] - t[1], 2>>
   IN RatEq(QuadCost(t, type), RatAdd(RatAdd(RatMul(alpha, RatMul(x, x)), RatMul(beta, x)), Int2Rat(t[2])))
T_FlatNoShift == (Live /\ t[1] = t[2] /\ t[3] = t[2]) => (Shift(method, t, type)[1] = 0 /\ RatEq(FitCost(method, t, type), Int2Rat(t[2])))
=============================================================================
