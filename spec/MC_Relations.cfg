INIT Init
NEXT Next
INVARIANT T_WholeIsInterior
INVARIANT T_MonotoneRadii
INVARIANT T_MonotoneM
INVARIANT T_ZeroRadius
CHECK_DEADLOCK FALSE
