---------------------------- MODULE MC_Relations ----------------------------
(* Small-scope sanity theorems of the cone predicate used for crop consistency (C13): the whole image is a crop of      *)
(* itself whose every pixel is cone-interior; enlarging the radii or the interval never adds interior pixels; a crop      *)
(* touching an image border does not lose the pixels next to that border.                                             *)
EXTENDS Relations, TLC
VARIABLES e
Init == \E R \in 4..6, C \in 5..7, r0 \in 0..2, c0 \in 0..2, rows \in 2..6, cols \in 2..7, rr \in 0..2, rc \in 0..1, ext \in 0..2, m \in 1..2 :
           /\ r0 + rows <= R /\ c0 + cols <= C
           /\ e = [R |-> R, C |-> C, rows |-> rows, cols |-> cols, r0 |-> r0, c0 |-> c0, rr |-> rr, rc |-> rc, ext |-> ext, m |-> m]
Next == UNCHANGED e
Pix == (1..e.rows) \X (1..e.cols)
T_WholeIsInterior == (e.r0 = 0 /\ e.c0 = 0 /\ e.rows = e.R /\ e.cols = e.C) => \A x \in Pix : ConeInside(e, x[1], x[2])
T_MonotoneRadii == \A x \in Pix : ConeInside([e EXCEPT !.rr = e.rr + 1, !.ext = e.ext + 1], x[1], x[2]) => ConeInside(e, x[1], x[2])
T_MonotoneM == \A x \in Pix : ConeInside([e EXCEPT !.m = 2], x[1], x[2]) => ConeInside([e EXCEPT !.m = 1], x[1], x[2])
T_ZeroRadius == (e.rr = 0 /\ e.rc = 0 /\ e.ext = 0) => \A x \in Pix : ConeInside(e, x[1], x[2])
=============================================================================
