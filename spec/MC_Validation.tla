---------------------------- MODULE MC_Validation ----------------------------
(* Exhaustive small scope for cross-checking: every pair of 1 x 3 maps over halves in -2..2 and NaN, thresholds       *)
(* {0, 1/2, 1}, interval -2..2: the outcome sets of Validation.tla are well formed (non-empty, never both bits,        *)
(* consistent => unflagged) and integer maps have a unique outcome.                                                   *)
EXTENDS Validation, TLC
CONSTANT Thorough
VARIABLES e, phase
Halves == (IF Thorough THEN {<<k, 2>> : k \in -4..4} ELSE {<<k, 2>> : k \in -2..2}) \cup {<<NaN, 1>>}
Row3 == [1..3 -> Halves]
GG == IF Thorough THEN 2 ELSE 1
Init == /\ phase = 0
        /\ \E l \in Row3, t \in {<<0, 1>>, <<1, 2>>, <<1, 1>>} :
              e = [rows |-> 1, cols |-> 3, gmin |-> -GG, gmax |-> GG, thr |-> t, dL |-> <<l>>, dR |-> <<l>>]
Next == /\ phase = 0 /\ phase' = 1
        /\ \E r \in Row3 : e' = [e EXCEPT !.dR = <<r>>]
Valid(c) == RIsNum(e.dL[1][c])
T_NonEmpty == \A c \in 1..3 : Valid(c) => \A q \in Corr(e, 1, c) : AllowedAdd(e, 1, c, q) # {}
T_NeverBoth == \A c \in 1..3 : Valid(c) => \A q \in Corr(e, 1, c) : \A s \in AllowedAdd(e, 1, c, q) : ~({8, 9} \subseteq s)
T_ConsistentUnflagged == \A c \in 1..3 : Valid(c) => \A q \in Corr(e, 1, c) : Consistent(e, 1, c, q) => AllowedAdd(e, 1, c, q) = {{}}
\* without halves the outcome is unique when the correspondent is inside the image
T_IntegerUnique == (\A c \in 1..3 : IsInt(e.dL[1][c]) /\ (RIsNum(e.dR[1][c]) => IsInt(e.dR[1][c]))) =>
     \A c \in 1..3 : Valid(c) => \A q \in Corr(e, 1, c) : InRight(e, q) => Cardinality(AllowedAdd(e, 1, c, q)) = 1
T_MustImpliesMay == \A c \in 1..3 : MustMismatch(e, 1, c) => MayMismatch(e, 1, c)
=============================================================================
