INIT Init
NEXT Next
CONSTANT Thorough = TRUE
INVARIANT T_NonEmpty
INVARIANT T_NeverBoth
INVARIANT T_ConsistentUnflagged
INVARIANT T_IntegerUnique
INVARIANT T_MustImpliesMay
CHECK_DEADLOCK TRUE
