----------------------------- MODULE MachineInd -----------------------------
(* Typed abstraction of PandoraMachine.tla for Apalache: the pipeline is an arbitrary stream of step kinds (unbounded length),  *)
(* operations follow each other without bound.  IndInv is an INDUCTIVE invariant: it implies BackToInitial (C01) for every      *)
(* pipeline length and every history length.  Tables come from the generated module (same extraction as MC_Tables).            *)
EXTENDS Integers, MachineIndTables

VARIABLES
  \* @type: Str;
  ms,
  \* @type: Int;
  chk,
  \* @type: Int;
  run,
  \* @type: Str;
  pc,
  \* @type: Int;
  scale

Kinds == {"matching_cost", "aggregation", "optimization", "semantic_segmentation", "cost_volume_confidence",
          "disparity", "filter", "refinement", "validation", "multiscale"}
MStates == {"begin", "cost_volume", "disp_map"}

Reset == ms' = "begin" /\ chk' = 0 /\ run' = 0 /\ pc' = "idle" /\ scale' = 0

CheckBegin == pc = "idle" /\ pc' = "check" /\ chk' = chk + 1 /\ UNCHANGED <<ms, run, scale>>
CheckStep == /\ pc = "check"
             /\ \E k \in Kinds :
                  LET en == {t \in TypedCheckTable : t.trigger = k /\ t.source = ms}
                  IN \/ (en = {} /\ Reset)                                                   \* sequencing error: rejected, clean
                     \/ \E t \in en : \/ (ms' = t.dest /\ UNCHANGED <<chk, run, pc, scale>>)    \* callback succeeded
                                       \/ Reset                                               \* parameter error: rejected, clean
CheckEnd == pc = "check" /\ Reset
RunBegin == pc = "idle" /\ \E n \in 1..3 : scale' = n - 1 /\ pc' = "run" /\ run' = run + 1 /\ UNCHANGED <<ms, chk>>
RunStep == /\ pc = "run"
           /\ \E k \in Kinds :
                LET en == {t \in TypedRunTable : t.trigger = k /\ t.source = ms}
                IN \/ (en = {} /\ Reset)
                   \/ \E t \in en : \/ ((t.cond # "none" /\ scale = 0) /\ UNCHANGED <<ms, chk, run, pc, scale>>)    \* skipped silently
                                     \/ (~(t.cond # "none" /\ scale = 0) /\ ms' = t.dest
                                         /\ scale' = (IF k = "multiscale" THEN scale - 1 ELSE scale) /\ UNCHANGED <<chk, run, pc>>)
RunEnd == pc = "run" /\ Reset
Init == ms = "begin" /\ chk = 0 /\ run = 0 /\ pc = "idle" /\ scale = 0
Next == CheckBegin \/ CheckStep \/ CheckEnd \/ RunBegin \/ RunStep \/ RunEnd

TypeOK == ms \in MStates /\ pc \in {"idle", "check", "run"} /\ chk \in 0..1 /\ run \in 0..1 /\ scale \in 0..2
IndInv == /\ TypeOK
          /\ (pc = "idle" => (ms = "begin" /\ chk = 0 /\ run = 0 /\ scale = 0))
          /\ (pc = "check" => (chk = 1 /\ run = 0))
          /\ (pc = "run" => (run = 1 /\ chk = 0))
BackToInitial == pc = "idle" => (ms = "begin" /\ chk = 0 /\ run = 0)
=============================================================================
