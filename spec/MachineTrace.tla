---------------------------- MODULE MachineTrace ----------------------------
(* Trace validation (binding B3) for the control plane: histories of check / run operations recorded    *)
(* from REAL PandoraMachine objects are replayed through the actions of PandoraMachine.tla.  One JSON    *)
(* line per history:                                                                                     *)
(*   {id, ops: [{op: "check"|"run", pipeline: [{kind, sfx, ok}], ns,                                     *)
(*               events: [{ev:"CheckCb", idx, kind} | {ev:"RunCb", idx, kind, side, scale}                *)
(*                        | {ev:"CheckEnd"|"RunEnd", outcome, err}],  post: {ms, nev}}]}                   *)
(* Verdicts are total: every history gets one <<"V", {id, failed}>> line; `failed` lists                 *)
(* <<op index, clause, position of the first event no specification action can produce>>.               *)
EXTENDS PandoraMachine, MC_Tables, Multiscale, Json, IOUtils

Traces == ndJsonDeserialize(IOEnv.TRACE_FILE)

RECURSIVE SilentClosure(_)
SilentClosure(S) ==
   LET nxt == UNION {{x.st : x \in {y \in Internal(s) : y.lab.ev = "silent"}} : s \in S}
   IN IF nxt \subseteq S THEN S ELSE SilentClosure(S \cup nxt)

Has(r, f) == f \in DOMAIN r
\* the user interval of a side: the right image is searched on the negated, exchanged left interval (no right disparity given)
UserMin(o, side) == IF side = "L" THEN o.umin ELSE -o.umax
UserMax(o, side) == IF side = "L" THEN o.umax ELSE -o.umin
LabMatches(lab, e) ==
   /\ lab.ev = e.ev
   /\ (lab.ev = "CheckCb" => (lab.idx = e.idx /\ lab.kind = e.kind))
   /\ (lab.ev = "RunCb"   => (lab.idx = e.idx /\ lab.kind = e.kind /\ lab.side = e.side /\ lab.scale = e.scale))
   /\ (lab.ev = "RunSub"  => (lab.idx = e.idx /\ lab.what = e.what /\ lab.side = e.side /\ lab.scale = e.scale))
   /\ (lab.ev \in {"CheckEnd", "RunEnd"} =>
          (lab.outcome = e.outcome /\ (lab.err = "sequencing" => e.err = "sequencing")))

Match(S, e) == {x.st : x \in {y \in UNION {Internal(s) : s \in SilentClosure(S)} : LabMatches(y.lab, e)}}

RECURSIVE Consume(_, _, _)
Consume(S, evs, i) ==
   IF i > Len(evs) THEN [S |-> S, stuck |-> 0]
   ELSE LET S2 == Match(S, evs[i])
        IN IF S2 = {} THEN [S |-> S, stuck |-> i] ELSE Consume(S2, evs, i + 1)

Begin(s, o) == IF o.op = "check" THEN {x.st : x \in CheckBegin(s, o.pipeline)}
               ELSE {x.st : x \in RunBegin(s, o.pipeline, o.ns)}

PropsOf(s) == {c \in {"AcceptIffDocPath", "SequencingErrorNamed", "CheckVisitsAll", "RunsAsWritten", "BackToInitial"} :
                 ~ CASE c = "AcceptIffDocPath" -> AcceptIffDocPath(s)
                     [] c = "SequencingErrorNamed" -> SequencingErrorNamed(s)
                     [] c = "CheckVisitsAll" -> CheckVisitsAll(s)
                     [] c = "RunsAsWritten" -> RunsAsWritten(s)
                     [] c = "BackToInitial" -> BackToInitial(s)}

\* verdict of one operation started from the clean machine state (the specification's post-state of every
\* operation is the clean state, so each operation of a history is judged against a fresh start: a machine
\* whose behaviour depends on its history fails here)
OpVerdict(k, o) ==
   LET S0 == Begin(Idle0, o)
       r  == Consume(S0, o.events, 1)
       ev == IF r.stuck = 0 THEN {} ELSE {<<k, "events", r.stuck>>}
       pr == IF r.stuck # 0 THEN {} ELSE UNION {{<<k, c, 0>> : c \in PropsOf(s)} : s \in r.S}
       \* the statement requires the initial state after a SUCCESSFUL check or run
       \* C15: the number of processed scales is the one configured by the multiscale step; every step execution sees the image
       \* of its pyramid level; the coarsest level searches the user interval divided by sf^(ns-1)
       ms == IF "dns" \in DOMAIN o
             THEN (IF o.ns # o.dns THEN {<<k, "scales_processed", 0>>} ELSE {})
                  \cup {<<k, "pyramid_shape", j>> : j \in {i \in 1..Len(o.events) :
                             o.events[i].ev = "RunCb" /\ "rows" \in DOMAIN o.events[i] /\ o.events[i].scale >= 0
                             /\ ~(o.events[i].rows = ShapeAt(o.base_rows, o.sf, o.events[i].scale)
                                  /\ o.events[i].cols = ShapeAt(o.base_cols, o.sf, o.events[i].scale))}}
                  \cup {<<k, "coarsest_interval", j>> : j \in {i \in 1..Len(o.events) :
                             o.events[i].ev = "RunCb" /\ "dlo" \in DOMAIN o.events[i] /\ o.events[i].scale = o.dns - 1 /\ o.events[i].side \in {"L", "R"}
                             /\ ~(CoarseBoundOk(UserMin(o, o.events[i].side), o.sf, o.dns - 1, o.events[i].dlo)
                                  /\ CoarseBoundOk(UserMax(o, o.events[i].side), o.sf, o.dns - 1, o.events[i].dhi))}}
                  \cup {<<k, "whole_interval_at_border", j>> : j \in {i \in 1..Len(o.events) :
                             o.events[i].ev = "RunCb" /\ "blo" \in DOMAIN o.events[i] /\ o.events[i].side \in {"L", "R"} /\ o.events[i].scale >= 0
                             /\ ~(LevelBoundOk(UserMin(o, o.events[i].side), o.sf, o.dns, o.events[i].scale, o.events[i].blo)
                                  /\ LevelBoundOk(UserMax(o, o.events[i].side), o.sf, o.dns, o.events[i].scale, o.events[i].bhi))}}
                  \cup (IF ~o.final_shape_ok THEN {<<k, "final_shape", 0>>} ELSE {})
                  \cup (IF ~o.inputs_ok THEN {<<k, "inputs_unmodified", 0>>} ELSE {})
             ELSE {}
       po == IF o.events[Len(o.events)].outcome \in {"accepted", "ran"} /\ ~(o.post.ms = "begin" /\ o.post.nev = 0)
             THEN {<<k, "post_initial", 0>>} ELSE {}
   IN ev \cup pr \cup po \cup ms

Verdict(t) == UNION {OpVerdict(k, t.ops[k]) : k \in 1..Len(t.ops)}

VARIABLE i
Init == i = 1
Next == /\ i <= Len(Traces)
        /\ IF PrintT(<<"V", ToJson([id |-> Traces[i].id, failed |-> Verdict(Traces[i])])>>) THEN i' = i + 1 ELSE FALSE
=============================================================================
