------------------------------ MODULE MainTrace ------------------------------
(* Trace validation of real command-line runs against PandoraMain.tla.  One JSON line per run:                             *)
(*  {id, events: [{ev: "CheckConf"|"Read"|"CheckDatasets"|"Run"|"Save"|"SaveConfig", ok?, hasVal?, nl?, nr?, files: [...]}],   *)
(*   final: {files: [...]}, obs: {... booleans computed by the harness on the written files ...}}                            *)
EXTENDS PandoraMain, Json, IOUtils
Traces == ndJsonDeserialize(IOEnv.TRACE_FILE)
SeqSet(q) == {q[i] : i \in 1..Len(q)}
StepOf(s, e) == CASE e.ev = "CheckConf" -> CheckConf(s, e.ok)
                  [] e.ev = "Read" -> Read(s)
                  [] e.ev = "CheckDatasets" -> CheckDatasets(s, e.ok)
                  [] e.ev = "Run" -> Run(s, e.hasVal, e.nl, e.nr)
                  [] e.ev = "Save" -> Save(s)
                  [] e.ev = "SaveConfig" -> SaveConfig(s)
                  [] OTHER -> {}
RECURSIVE Consume(_, _, _)
\* every event must be a step of the specification AND the files observed on disk after it must be the specification's
Consume(s, evs, i) ==
   IF i > Len(evs) THEN [s |-> s, stuck |-> 0, why |-> "none"]
   ELSE LET nxt == StepOf(s, evs[i])
        IN IF nxt = {} THEN [s |-> s, stuck |-> i, why |-> "protocol_order"]
           ELSE LET t == CHOOSE u \in nxt : TRUE
                IN IF SeqSet(evs[i].files) # t.files THEN [s |-> t, stuck |-> i, why |-> "files_after_step"]
                   ELSE Consume(t, evs, i + 1)
ObsClauses == {"values_equal_products", "dtype_float32", "mask_dtype_uint16", "band_names_are_indicators", "georeferencing_kept",
               "product_files_present", "single_band_rasters",
               "config_is_loadable_json", "config_holds_completed_cfg", "config_holds_margins", "replay_accepted", "replay_same_rasters"}
Verdict(t) ==
   LET r == Consume(Init0, t.events, 1)
       props == {c \in {"NoProductBeforeRun", "RefusedWritesNothing", "DoneHasExactlyExpected", "RightIffValidation"} :
                   ~ CASE c = "NoProductBeforeRun" -> NoProductBeforeRun(r.s) [] c = "RefusedWritesNothing" -> RefusedWritesNothing(r.s)
                       [] c = "DoneHasExactlyExpected" -> DoneHasExactlyExpected(r.s) [] c = "RightIffValidation" -> RightIffValidation(r.s)}
   IN [failed |-> (IF r.stuck # 0 THEN {r.why} ELSE {}) \cup props
                  \cup (IF r.stuck = 0 /\ r.s.pc # t.expect_pc THEN {"final_state"} ELSE {})
                  \cup {c \in ObsClauses : c \in DOMAIN t.obs /\ ~t.obs[c]},
       detail |-> <<r.stuck, r.s.pc, r.s.files>>]
VARIABLE i
Init == i = 1
Next == /\ i <= Len(Traces)
        /\ LET v == Verdict(Traces[i])
           IN IF PrintT(<<"V", ToJson([id |-> Traces[i].id, failed |-> v.failed, detail |-> v.detail])>>) THEN i' = i + 1 ELSE FALSE
=============================================================================
