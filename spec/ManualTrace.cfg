INIT Init
NEXT Next
CONSTANTS
  CheckTable <- GenCheckTable
  RunTable <- GenRunTable
CHECK_DEADLOCK FALSE
