----------------------------- MODULE ManualTrace -----------------------------
(* Trace validation of the step-by-step API: sessions recorded from REAL PandoraMachine objects driven by hand      *)
(* (run_prepare, machine.run(<any step>) in any order, run_exit) are replayed through the actions of                 *)
(* PandoraManual.tla.  One JSON line per session:                                                                     *)
(*   {id, ops: [{ev:"Prepare", ns, rmap} | {ev:"Trig", kind, res:"ok"|"noop"|"error", sides:[..], ms, scale, nev}     *)
(*              | {ev:"Exit", ms, nev}]}                                                                              *)
(* Total verdicts: every session gets one <<"V", {id, failed}>> line; `failed` lists <<position, clause>>.  After a   *)
(* mismatch the replay resynchronises on the observed machine state so that the rest of the session is still judged.  *)
EXTENDS PandoraManual, MC_Tables, Json, IOUtils

Traces == ndJsonDeserialize(IOEnv.TRACE_FILE)

Resync(m, e) == [m EXCEPT !.ms = e.ms, !.scale = IF "scale" \in DOMAIN e /\ e.scale \in 0..(m.ns - 1) THEN e.scale ELSE m.scale]

\* clauses failed by one observed event in specification state m, and the state to continue from
StepVerdict(m, e, pos) ==
   IF e.ev = "Prepare"
   THEN LET S == Prepare(m, e.ns, e.rmap)
        IN IF S = {} THEN [m |-> m, f |-> {<<pos, "prepare_enabled">>}]
           ELSE [m |-> (CHOOSE x \in S : TRUE).st, f |-> {}]
   ELSE IF e.ev = "Trig"
   THEN LET S   == Trigger(m, e.kind)
            ok  == {x \in S : x.lab.res = e.res /\ x.lab.sides = e.sides /\ x.st.ms = e.ms /\ x.st.scale = e.scale}
            d   == DocTrig(m, e.kind)
            f1  == IF ok = {} THEN {<<pos, IF \A x \in S : x.lab.res # e.res THEN "trigger_result"
                                            ELSE IF \A x \in S : x.lab.sides # e.sides THEN "trigger_sides"
                                            ELSE "trigger_state">>} ELSE {}
            f2  == IF d.res = e.res /\ d.ms = e.ms /\ d.scale = e.scale /\ (e.res = "ok" => e.sides = ExecSides(m))
                      /\ (e.res # "ok" => e.sides = <<>>)
                   THEN {} ELSE {<<pos, "as_documented">>}
            f3  == IF e.res # "ok" /\ ~e.unchanged THEN {<<pos, "refusal_is_noop">>} ELSE {}
        IN [m |-> IF ok # {} THEN (CHOOSE x \in ok : TRUE).st ELSE Resync(m, e), f |-> f1 \cup f2 \cup f3]
   ELSE LET S == Exit(m)
            x == CHOOSE y \in S : TRUE
        IN [m |-> x.st, f |-> IF e.ms = x.st.ms /\ e.nev = 0 THEN {} ELSE {<<pos, "exit_initial">>}]

RECURSIVE Replay(_, _, _, _)
Replay(m, evs, i, acc) ==
   IF i > Len(evs) THEN acc
   ELSE LET r == StepVerdict(m, evs[i], i) IN Replay(r.m, evs, i + 1, acc \cup r.f)

Verdict(t) == Replay(Manual0, t.ops, 1, {})

VARIABLE i
Init == i = 1
Next == /\ i <= Len(Traces)
        /\ IF PrintT(<<"V", ToJson([id |-> Traces[i].id, failed |-> Verdict(Traces[i])])>>) THEN i' = i + 1 ELSE FALSE
=============================================================================
