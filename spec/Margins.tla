------------------------------ MODULE Margins ------------------------------
(***************************************************************************)
(* Margins reported after checking a pipeline (C20).  A pipeline is a      *)
(* sequence of steps [name, kind, method, win, fsize, sig3]:               *)
(*   win   : matching-cost window size,                                    *)
(*   fsize : median filter size,                                           *)
(*   sig3  : int(3 * sigma_space + 1) of a bilateral filter,               *)
(* rows, cols: image shape; stp: the matching-cost step (1).               *)
(* All four sides carry the same value, so a margin is one natural number. *)
(***************************************************************************)
EXTENDS Naturals, Sequences, FiniteSets, FiniteSetsExt

Min3(a, b, c) == IF a <= b /\ a <= c THEN a ELSE IF b <= c THEN b ELSE c
CumulKinds == {"matching_cost", "optimization", "aggregation", "disparity", "refinement"}

StepMargin(s, rows, cols, stp) ==
   CASE s.kind = "matching_cost" -> (s.win - 1) \div 2
     [] s.kind = "optimization"  -> 40
     [] s.kind \in {"aggregation", "disparity", "refinement"} -> 0
     [] s.kind = "filter" /\ s.method \in {"median", "median_for_intervals"} -> s.fsize * stp
     [] s.kind = "filter" /\ s.method = "bilateral" -> Min3(rows, cols, s.sig3) * stp
     [] OTHER -> 0
IsCumul(s)    == s.kind \in CumulKinds
IsNonCumul(s) == s.kind = "filter"
Idx(p) == 1..Len(p)
Cumulatives(p, rows, cols, stp)    == {<<p[i].name, StepMargin(p[i], rows, cols, stp)>> : i \in {j \in Idx(p) : IsCumul(p[j])}}
NonCumulatives(p, rows, cols, stp) == {<<p[i].name, StepMargin(p[i], rows, cols, stp)>> : i \in {j \in Idx(p) : IsNonCumul(p[j])}}
SumCumul(p, rows, cols, stp) == MapThenSumSet(LAMBDA i : StepMargin(p[i], rows, cols, stp), {j \in Idx(p) : IsCumul(p[j])})
MaxSet(S) == IF S = {} THEN 0 ELSE CHOOSE x \in S : \A y \in S : x >= y
Global(p, rows, cols, stp) ==
   MaxSet({SumCumul(p, rows, cols, stp)} \cup {StepMargin(p[i], rows, cols, stp) : i \in {j \in Idx(p) : IsNonCumul(p[j])}})
=============================================================================
