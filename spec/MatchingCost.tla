---------------------------- MODULE MatchingCost ----------------------------
(***************************************************************************)
(* Matching-cost step (C02, C09): what the cost volume MEANS, transcribed  *)
(* from the user guide (matching_cost.rst) and the property statement, not *)
(* from the code's slicing arithmetic.                                     *)
(*                                                                         *)
(* A stereo problem P is a record                                          *)
(*   rows, cols, win (odd), s (subpix), measure, band,                     *)
(*   L, R   : [band][row][col] integer radiometry (1-based),               *)
(*   mL, mR : [row][col] in {0 valid, 1 no-data, 2 invalid},               *)
(*   dmin8, dmax8 : [row][col] per-pixel interval bounds times 8 (bounds    *)
(*                  may be fractional: they come from a float raster),     *)
(*   gmin, gmax : global interval = the sampled disparities                *)
(* A disparity sample is an integer D = s * d (d a multiple of 1/s).       *)
(* Costs are scaled so that they are integers: SAD by s, SSD by s*s.       *)
(***************************************************************************)
EXTENDS Integers, Sequences, FiniteSets, FiniteSetsExt

NaN == 1000000007     \* sentinel used in traces for "not a number"; never enters arithmetic

Off(win) == (win - 1) \div 2
Abs(x) == IF x < 0 THEN -x ELSE x
Span(x, o) == (x - o)..(x + o)
Window(r, c, o) == Span(r, o) \X Span(c, o)
SumOver(S, F(_)) == MapThenSumSet(F, S)

InImg(P, r, c) == r >= 1 /\ r <= P.rows /\ c >= 1 /\ c <= P.cols
WindowInside(P, r, c) == /\ r - Off(P.win) >= 1 /\ r + Off(P.win) <= P.rows
                         /\ c - Off(P.win) >= 1 /\ c + Off(P.win) <= P.cols
NodataInWindow(P, m, r, c) == \E x \in Window(r, c, Off(P.win)) : InImg(P, x[1], x[2]) /\ m[x[1]][x[2]] = 1
\* a pixel that cannot be the centre of a window: masked invalid, or a no-data pixel in its window
Bad(P, m, r, c) == m[r][c] = 2 \/ NodataInWindow(P, m, r, c)

Di(P, D) == D \div P.s        \* integer part (floor) of the disparity
Fr(P, D) == D % P.s           \* fractional part, in 1/s units

\* the right window centred at column c + d: for a fractional d it is interpolated from the two
\* bracketing columns, which must both be usable
RightComputable(P, r, c, D) ==
   LET q == c + Di(P, D)
       last == IF Fr(P, D) = 0 THEN q ELSE q + 1
   IN /\ q - Off(P.win) >= 1 /\ last + Off(P.win) <= P.cols
      /\ ~Bad(P, P.mR, r, q)
      /\ (Fr(P, D) # 0 => ~Bad(P, P.mR, r, q + 1))

InInterval(P, r, c, D) == 8 * D >= P.s * P.dmin8[r][c] /\ 8 * D <= P.s * P.dmax8[r][c]

Computable(P, r, c, D) == /\ WindowInside(P, r, c)
                          /\ ~Bad(P, P.mL, r, c)
                          /\ RightComputable(P, r, c, D)
                          /\ InInterval(P, r, c, D)

\* radiometry scaled by s; right image linearly interpolated at fractional columns
LV(P, r, c) == P.s * P.L[P.band][r][c]
RV(P, r, q, k) == IF k = 0 THEN P.s * P.R[P.band][r][q]
                  ELSE (P.s - k) * P.R[P.band][r][q] + k * P.R[P.band][r][q + 1]

Sad(P, r, c, D) == SumOver(Window(r, c, Off(P.win)),
                           LAMBDA x : Abs(LV(P, x[1], x[2]) - RV(P, x[1], x[2] + Di(P, D), Fr(P, D))))
Ssd(P, r, c, D) == SumOver(Window(r, c, Off(P.win)),
                           LAMBDA x : (LV(P, x[1], x[2]) - RV(P, x[1], x[2] + Di(P, D), Fr(P, D)))
                                      * (LV(P, x[1], x[2]) - RV(P, x[1], x[2] + Di(P, D), Fr(P, D))))
\* Hamming distance of the two census bit-strings (bit = neighbour strictly greater than the centre)
Census(P, r, c, D) ==
   SumOver(Window(r, c, Off(P.win)),
           LAMBDA x : IF (LV(P, x[1], x[2]) > LV(P, r, c))
                         = (RV(P, x[1], x[2] + Di(P, D), Fr(P, D)) > RV(P, r, c + Di(P, D), Fr(P, D)))
                      THEN 0 ELSE 1)

\* ZNCC = cov / sqrt(varL * varR), 0 when a variance is zero: exact integer numerators (times n*n)
Npix(P) == P.win * P.win
SumL(P, r, c)     == SumOver(Window(r, c, Off(P.win)), LAMBDA x : LV(P, x[1], x[2]))
SumR(P, r, c, D)  == SumOver(Window(r, c, Off(P.win)), LAMBDA x : RV(P, x[1], x[2] + Di(P, D), Fr(P, D)))
SumLL(P, r, c)    == SumOver(Window(r, c, Off(P.win)), LAMBDA x : LV(P, x[1], x[2]) * LV(P, x[1], x[2]))
SumRR(P, r, c, D) == SumOver(Window(r, c, Off(P.win)),
                             LAMBDA x : RV(P, x[1], x[2] + Di(P, D), Fr(P, D)) * RV(P, x[1], x[2] + Di(P, D), Fr(P, D)))
SumLR(P, r, c, D) == SumOver(Window(r, c, Off(P.win)),
                             LAMBDA x : LV(P, x[1], x[2]) * RV(P, x[1], x[2] + Di(P, D), Fr(P, D)))
CovN(P, r, c, D)  == Npix(P) * SumLR(P, r, c, D) - SumL(P, r, c) * SumR(P, r, c, D)
VarLN(P, r, c)    == Npix(P) * SumLL(P, r, c) - SumL(P, r, c) * SumL(P, r, c)
VarRN(P, r, c, D) == Npix(P) * SumRR(P, r, c, D) - SumR(P, r, c, D) * SumR(P, r, c, D)
\* the logged value q = round(100 * zncc) must enclose cov/sqrt(varL*varR) within 1/100 (TLC integers are
\* 32 bits: the harness keeps scaled pixel values <= 2 and windows 3x3 for zncc, so every product < 2^31):
\*   sign(q) = sign(cov) (or |q| <= 1)  and  (|q|-1)^2 * varL*varR <= 10^4 * cov^2 <= (|q|+1)^2 * varL*varR
ZnccEncloses(P, r, c, D, q) ==
   LET cv == CovN(P, r, c, D)  vl == VarLN(P, r, c)  vr == VarRN(P, r, c, D)
       a == Abs(q)
   IN IF vl = 0 \/ vr = 0 THEN q = 0
      ELSE /\ (a > 1 => ((q > 0) = (cv > 0)))
           /\ (IF a > 1 THEN (a - 1) * (a - 1) * vl * vr <= 10000 * cv * cv ELSE TRUE)
           /\ 10000 * cv * cv <= (a + 1) * (a + 1) * vl * vr

Cost(P, r, c, D) == IF ~Computable(P, r, c, D) THEN NaN
                    ELSE CASE P.measure = "sad"    -> Sad(P, r, c, D)
                           [] P.measure = "ssd"    -> Ssd(P, r, c, D)
                           [] P.measure = "census" -> Census(P, r, c, D)
                           [] OTHER                -> 0

Samples(P) == (P.s * P.gmin)..(P.s * P.gmax)          \* the sampled disparities, as scaled integers
SampleIdx(P, D) == D - P.s * P.gmin + 1               \* position of a sample in the cost volume (1-based)
TypeMeasure(m) == IF m = "zncc" THEN "max" ELSE "min"
=============================================================================
