----------------------------- MODULE Multiscale -----------------------------
(***************************************************************************)
(* Multiscale processing (C15): pyramid shapes, interval scaling, and the  *)
(* disparity range handed to the next finer level.                         *)
(***************************************************************************)
EXTENDS Integers, Sequences, FiniteSets

RECURSIVE Pow(_, _)
Pow(b, n) == IF n = 0 THEN 1 ELSE b * Pow(b, n - 1)
CeilDiv(a, b) == (a + b - 1) \div b
\* size of an image dimension at pyramid level s (level 0 = original), one ceil per level as the pyramid is built
RECURSIVE ShapeAt(_, _, _)
ShapeAt(n, sf, s) == IF s = 0 THEN n ELSE CeilDiv(ShapeAt(n, sf, s - 1), sf)
\* the interval searched at the coarsest level is the user interval divided by sf^(ns-1): exact when divisible, otherwise
\* any integer enclosure within one unit
CoarseBoundOk(user, sf, s, got) == IF user % Pow(sf, s) = 0 THEN got * Pow(sf, s) = user
                                   ELSE got * Pow(sf, s) > user - Pow(sf, s) /\ got * Pow(sf, s) < user + Pow(sf, s)

\* whole interval of level s as searched at a border pixel: exact when the user bound is divisible by sf^(ns-1) (then by every
\* smaller power), otherwise within one coarse unit (sf) of user / sf^s
LevelBoundOk(user, sf, ns, s, got) == IF user % Pow(sf, ns - 1) = 0 THEN got * Pow(sf, s) = user
                                      ELSE got * Pow(sf, s) > user - sf * Pow(sf, s) /\ got * Pow(sf, s) < user + sf * Pow(sf, s)

\* ---- disparity range for the next level --------------------------------------------------------------------------------
\* e: rows, cols (coarse map), sf, marge, win, gmin, gmax (whole interval of the level), d [r][c] disparities (scaled integers,
\*    scale e.k), bad [r][c] (invalid pixels), out: omin, omax [R][C] (scaled by e.k) on the finer grid
Off(e) == (e.win - 1) \div 2
Interior(e, r, c) == r - Off(e) >= 1 /\ r + Off(e) <= e.rows /\ c - Off(e) >= 1 /\ c + Off(e) <= e.cols
WinValid(e, r, c) == {x \in ((r - Off(e))..(r + Off(e))) \X ((c - Off(e))..(c + Off(e))) : ~e.bad[x[1]][x[2]]}
MinD(e, S) == CHOOSE v \in {e.d[x[1]][x[2]] : x \in S} : \A x \in S : v <= e.d[x[1]][x[2]]
MaxD(e, S) == CHOOSE v \in {e.d[x[1]][x[2]] : x \in S} : \A x \in S : v >= e.d[x[1]][x[2]]
\* range handed over by coarse pixel (r, c): the whole interval for an invalid or border pixel
RangeOf(e, r, c) == IF e.bad[r][c] \/ ~Interior(e, r, c) THEN <<e.k * e.gmin, e.k * e.gmax>>
                    ELSE <<MinD(e, WinValid(e, r, c)) - e.k * e.marge, MaxD(e, WinValid(e, r, c)) + e.k * e.marge>>
\* geometric parent of the fine pixel (R, C) (1-based): coarse pixel ((R-1) div sf + 1, (C-1) div sf + 1); the nearest-neighbour
\* upsampling may pick a coarse pixel one step away
Parents(e, R, C) == {x \in (1..e.rows) \X (1..e.cols) :
                        x[1] - ((R - 1) \div e.sf + 1) \in {-1, 0, 1} /\ x[2] - ((C - 1) \div e.sf + 1) \in {-1, 0, 1}}
FineOk(e, R, C, lo, hi) == \E x \in Parents(e, R, C) : RangeOf(e, x[1], x[2]) = <<lo, hi>>
=============================================================================
