---------------------------- MODULE PandoraConfig ----------------------------
(***************************************************************************)
(* Parameter tables of the built-in step methods (C05): for each step kind *)
(* and method, the parameters with their JSON type, domain and default,    *)
(* transcribed from the property statement and docs/.../step_by_step.      *)
(* A value is a record [t, n, s]: t in {"int","float","str","bool","null"};*)
(* n the number (floats in thousandths: n = 1000 * x), s the string; "NaN"/"inf"/"-inf" strings    *)
(* are the str values "NaN", "inf", "-inf".                                *)
(* A step configuration is a sequence of <<name, value>> pairs (order is   *)
(* observable: user keys keep their position).                             *)
(***************************************************************************)
EXTENDS Integers, Sequences, FiniteSets, TLC

I(n) == [t |-> "int", n |-> n, s |-> ""]
F(m) == [t |-> "float", n |-> m, s |-> ""]
S(x) == [t |-> "str", n |-> 0, s |-> x]
B(b) == [t |-> "bool", n |-> IF b THEN 1 ELSE 0, s |-> ""]
Null == [t |-> "null", n |-> 0, s |-> ""]
Absent == [t |-> "absent", n |-> 0, s |-> ""]

Methods(kind) == CASE kind = "matching_cost" -> {"sad", "ssd", "census", "zncc"}
                   [] kind = "aggregation" -> {"cbca"}
                   [] kind = "disparity" -> {"wta"}
                   [] kind = "refinement" -> {"vfit", "quadratic"}
                   [] kind = "filter" -> {"median", "bilateral", "median_for_intervals"}
                   [] kind = "validation" -> {"cross_checking_accurate"}
                   [] kind = "cost_volume_confidence" -> {"ambiguity", "risk", "std_intensity", "interval_bounds"}
                   [] kind = "multiscale" -> {"fixed_zoom_pyramid"}
                   [] OTHER -> {}
MethodKey(kind) == CASE kind = "matching_cost" -> "matching_cost_method" [] kind = "aggregation" -> "aggregation_method"
                     [] kind = "disparity" -> "disparity_method" [] kind = "refinement" -> "refinement_method"
                     [] kind = "filter" -> "filter_method" [] kind = "validation" -> "validation_method"
                     [] kind = "cost_volume_confidence" -> "confidence_method" [] kind = "multiscale" -> "multiscale_method"
                     [] OTHER -> "method"

\* parameters the statement makes a claim about: <<name, default>> (Absent = no default claimed / optional key)
Params(kind, method) ==
   CASE kind = "matching_cost" -> <<<<"window_size", I(5)>>, <<"subpix", I(1)>>, <<"band", Null>>, <<"step", I(1)>>>>
     [] kind = "aggregation" -> <<<<"cbca_intensity", F(30000)>>, <<"cbca_distance", I(5)>>>>
     [] kind = "disparity" -> <<<<"invalid_disparity", I(-9999)>>>>
     [] kind = "filter" /\ method = "median" -> <<<<"filter_size", I(3)>>>>
     \* regularisation parameters (filtering.rst / cost_volume_confidence.rst). No default is claimed where the guide and the code
     \* disagree (vertical_depth 2 / 0, quantile_regularization 0.9 / 1.0, normalization false / true)
     [] kind = "filter" /\ method = "median_for_intervals" ->
          <<<<"filter_size", I(3)>>, <<"interval_indicator", S("")>>, <<"regularization", B(FALSE)>>, <<"ambiguity_indicator", S("")>>,
            <<"ambiguity_threshold", F(600)>>, <<"ambiguity_kernel_size", I(5)>>, <<"vertical_depth", Absent>>, <<"quantile_regularization", Absent>>>>
     [] kind = "filter" /\ method = "bilateral" -> <<<<"sigma_color", F(2000)>>, <<"sigma_space", F(6000)>>>>
     [] kind = "validation" -> <<<<"cross_checking_threshold", F(1000)>>, <<"interpolated_disparity", Absent>>>>
     [] kind = "cost_volume_confidence" /\ method = "risk" -> <<<<"eta_max", F(700)>>, <<"eta_step", F(10)>>>>
     [] kind = "cost_volume_confidence" /\ method = "ambiguity" -> <<<<"eta_max", F(700)>>, <<"eta_step", F(10)>>, <<"normalization", Absent>>>>
     [] kind = "cost_volume_confidence" /\ method = "interval_bounds" ->
          <<<<"possibility_threshold", F(900)>>, <<"regularization", B(FALSE)>>, <<"ambiguity_indicator", S("")>>, <<"ambiguity_threshold", F(600)>>,
            <<"ambiguity_kernel_size", I(5)>>, <<"vertical_depth", Absent>>, <<"quantile_regularization", Absent>>>>
     [] kind = "multiscale" -> <<<<"num_scales", I(2)>>, <<"scale_factor", I(2)>>, <<"marge", I(1)>>>>
     [] OTHER -> <<>>
ParamNames(kind, method) == {Params(kind, method)[i][1] : i \in 1..Len(Params(kind, method))}

IsSpecialFloatString(v) == v.t = "str" /\ v.s \in {"NaN", "inf", "-inf"}
\* TRUE / FALSE / "unspecified" : is the value inside the documented domain of the parameter?
\* bands: <<band names of the left image, band names of the right image>> ({} for a monoband image)
Dom(kind, method, name, v, bands) ==
   CASE name = "window_size" ->
          IF v.t = "bool" THEN "unspecified"
          ELSE IF v.t # "int" THEN "no"
          ELSE IF method = "census" THEN (IF v.n \in {3, 5} THEN "yes" ELSE "no")
          ELSE (IF v.n > 0 /\ v.n % 2 = 1 THEN "yes" ELSE "no")
     [] name = "subpix" ->
          IF v.t = "bool" THEN "unspecified"
          ELSE IF v.t # "int" THEN "no"
          ELSE IF v.n = 1 \/ (v.n > 0 /\ v.n % 2 = 0) THEN "yes" ELSE "no"
     [] name = "step" ->
          IF v.t = "bool" THEN "unspecified" ELSE IF v.t = "int" /\ v.n = 1 THEN "yes" ELSE "no"
     [] name = "band" ->
          IF v.t = "null" THEN (IF bands[1] = {} /\ bands[2] = {} THEN "yes" ELSE "no")
          ELSE IF v.t = "str" /\ v.s = "" THEN "unspecified"        \* the empty string is no band name: treated like null by the code
          ELSE IF v.t = "str" THEN (IF v.s \in bands[1] /\ v.s \in bands[2] THEN "yes" ELSE "no")
          ELSE "no"
     [] name \in {"cbca_intensity", "sigma_color", "sigma_space"} ->
          IF v.t = "int" THEN (IF v.n > 0 THEN "unspecified" ELSE "no")         \* integer literal for a float parameter
          ELSE IF IsSpecialFloatString(v) THEN (IF v.s = "inf" THEN "unspecified" ELSE "no")
          ELSE IF v.t = "float" THEN (IF v.n > 0 THEN "yes" ELSE "no") ELSE "no"
     [] name \in {"cbca_distance"} ->
          IF v.t = "bool" THEN "unspecified" ELSE IF v.t = "int" /\ v.n > 0 THEN "yes" ELSE "no"
     [] name = "invalid_disparity" ->
          IF v.t \in {"int", "float"} \/ IsSpecialFloatString(v) THEN "yes" ELSE IF v.t = "bool" THEN "unspecified" ELSE "no"
     [] name = "filter_size" ->
          IF v.t = "bool" THEN "unspecified" ELSE IF v.t = "int" /\ v.n >= 1 /\ v.n % 2 = 1 THEN "yes" ELSE "no"
     [] name = "cross_checking_threshold" ->
          IF v.t \in {"int", "float"} THEN "yes" ELSE IF v.t = "bool" \/ IsSpecialFloatString(v) THEN "unspecified" ELSE "no"
     [] name = "interpolated_disparity" ->
          IF v.t = "str" /\ v.s \in {"mc-cnn", "sgm"} THEN "yes" ELSE IF v.t = "str" /\ v.s = "mc_cnn" THEN "unspecified" ELSE "no"
     [] name \in {"eta_max", "eta_step"} ->
          IF v.t = "int" THEN (IF v.n > 0 THEN "unspecified" ELSE "no")
          ELSE IF IsSpecialFloatString(v) THEN (IF v.s = "inf" THEN "unspecified" ELSE "no")
          ELSE IF v.t = "float" THEN (IF v.n <= 0 THEN "no" ELSE IF v.n < 1000 THEN "yes" ELSE "unspecified") ELSE "no"
     [] name \in {"num_scales", "scale_factor"} ->
          IF v.t = "bool" THEN "unspecified" ELSE IF v.t = "int" /\ v.n >= 2 THEN "yes" ELSE "no"
     [] name = "marge" ->
          IF v.t = "bool" THEN "unspecified" ELSE IF v.t = "int" /\ v.n >= 0 THEN "yes" ELSE "no"
     [] name \in {"possibility_threshold", "quantile_regularization"} ->           \* float in [0, 1]
          IF v.t = "float" THEN (IF v.n >= 0 /\ v.n <= 1000 THEN "yes" ELSE "no")
          ELSE IF v.t = "int" THEN (IF v.n \in {0, 1} THEN "unspecified" ELSE "no")
          ELSE "no"
     [] name = "ambiguity_threshold" ->             \* the guide says ]0, 1[, the schema [0, 1]: the two ends are left open
          IF v.t = "float" THEN (IF v.n > 0 /\ v.n < 1000 THEN "yes" ELSE IF v.n \in {0, 1000} THEN "unspecified" ELSE "no")
          ELSE IF v.t = "int" THEN (IF v.n \in {0, 1} THEN "unspecified" ELSE "no")
          ELSE "no"
     [] name \in {"regularization", "normalization"} -> IF v.t = "bool" THEN "yes" ELSE "no"
     [] name \in {"ambiguity_indicator", "interval_indicator"} ->
          IF IsSpecialFloatString(v) THEN "unspecified" ELSE IF v.t = "str" THEN "yes" ELSE "no"
     [] name = "ambiguity_kernel_size" ->           \* the guide says >= 0, the schema odd and > 0: even sizes are left open
          IF v.t = "bool" THEN "unspecified"
          ELSE IF v.t = "int" THEN (IF v.n > 0 /\ v.n % 2 = 1 THEN "yes" ELSE IF v.n >= 0 THEN "unspecified" ELSE "no")
          ELSE "no"
     [] name = "vertical_depth" ->
          IF v.t = "bool" THEN "unspecified" ELSE IF v.t = "int" THEN (IF v.n >= 0 THEN "yes" ELSE "no") ELSE "no"
     [] OTHER -> "unspecified"

\* verdict for a step whose configuration is the sequence cfg of <<name, value>> pairs (method key excluded)
StepVerdict(kind, method, cfg, bands) ==
   IF method \notin Methods(kind) THEN "reject"
   ELSE LET ds == {Dom(kind, method, cfg[i][1], cfg[i][2], bands) : i \in 1..Len(cfg)}
            \* an omitted band on a multiband image is outside the domain as well
            bandOmitted == kind = "matching_cost" /\ (bands[1] # {} \/ bands[2] # {}) /\ ~(\E i \in 1..Len(cfg) : cfg[i][1] = "band")
        IN IF "no" \in ds \/ bandOmitted THEN (IF "unspecified" \in ds THEN "unspecified" ELSE "reject")
           ELSE IF "unspecified" \in ds THEN "unspecified" ELSE "accept"
\* expected value after checking: the special strings become floats (marked by the str value itself, compared by the harness)
\* defaults that must appear for the omitted parameters
MissingDefaults(kind, method, cfg) ==
   {<<Params(kind, method)[i][1], Params(kind, method)[i][2]>> :
       i \in {j \in 1..Len(Params(kind, method)) : Params(kind, method)[j][2] # Absent
                                                    /\ ~(\E k \in 1..Len(cfg) : cfg[k][1] = Params(kind, method)[j][1])}}
=============================================================================
