----------------------------- MODULE PandoraInput -----------------------------
(***************************************************************************)
(* Input datasets (C16) and input well-formedness (C17).                   *)
(* Window arithmetic is 0-based like the image coordinates.                *)
(***************************************************************************)
EXTENDS Integers, Sequences, FiniteSets

Max2i(a, b) == IF a >= b THEN a ELSE b
Min2i(a, b) == IF a <= b THEN a ELSE b
\* roi: fc, lc (first / last column), fr, lr (rows), ml, mu, mr, md (margins left, up, right, down); W, H image size
\* the rows / columns actually read: [first - margin, last + margin] clipped to the image
RoiC0(q) == Max2i(q.fc - q.ml, 0)
RoiC1(q) == Min2i(q.lc + q.mr, q.W - 1)
RoiR0(q) == Max2i(q.fr - q.mu, 0)
RoiR1(q) == Min2i(q.lr + q.md, q.H - 1)
RoiRefused(q) == RoiC0(q) > RoiC1(q) \/ RoiR0(q) > RoiR1(q)          \* entirely outside the image
RoiWindow(q) == <<RoiC0(q), RoiR0(q), RoiC1(q) - RoiC0(q) + 1, RoiR1(q) - RoiR0(q) + 1>>   \* col_off, row_off, width, height

\* mask classes: 0 valid, 1 no-data, 2 invalid.  isnd: the sample equals the nodata value; m: input mask value (0 if no mask file)
MaskClass(isnd, m) == IF isnd THEN 1 ELSE IF m # 0 THEN 2 ELSE 0
\* a msk variable exists iff a mask file was given or some sample is no-data
HasMaskVar(maskGiven, anyNodata) == maskGiven \/ anyNodata

\* ---- C17: well-formed dataset pairs -----------------------------------------------------------------------------------
DatasetFaults == {"no_im", "band_names_not_str", "all_nan", "msk_off_grid", "classif_off_grid", "segm_off_grid", "disparity_off_grid",
                  "no_attr_no_data_img", "no_attr_valid_pixels", "no_attr_no_data_mask", "no_attr_crs", "no_attr_transform",
                  "disparity_without_min", "disparity_min_gt_max"}
PairFaults == {"left_no_disparity", "shapes_differ"}
\* a pair is accepted iff neither dataset has a fault and the pair has none (a missing disparity is a fault on the left only)
PairAccepted(fl, fr, fp) == fl = {} /\ fr = {} /\ fp = {}
\* ---- C17: input section ---------------------------------------------------------------------------------------------------
SectionFaults == {"left_img_unreadable", "right_img_unreadable", "nodata_float", "mask_unreadable", "mask_wrong_size", "classif_wrong_size",
                  "segm_wrong_size", "disp_max_lt_min", "disp_grid_one_band", "disp_grid_three_bands", "disp_grid_wrong_size",
                  "right_grid_without_left_grid", "right_disp_list", "images_differ_in_size", "disp_grid_min_gt_max"}
SectionAccepted(f) == f = {}
=============================================================================
