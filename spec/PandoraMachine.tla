--------------------------- MODULE PandoraMachine ---------------------------
(***************************************************************************)
(* Control plane of CNES/Pandora: the `transitions` state machine that     *)
(* sequences a pipeline, in its two phases (configuration checking and     *)
(* running), over one machine object and a history of check / run calls.   *)
(*                                                                         *)
(* The two transition tables are DATA extracted from the live class        *)
(* (PandoraMachine._transitions_check / _transitions_run) at check time    *)
(* (binding B1).  The trigger loop, the per-scale loop, the left/right     *)
(* duplication and the return to the initial state are written here as the *)
(* behaviour the documentation (sequencing.rst) and property C01 require.  *)
(* Doc* operators are written independently of the tables; TLC proves that *)
(* the tables executed by the loop realise them.                           *)
(*                                                                         *)
(* Actions are successor-set operators over an explicit state record so    *)
(* that MachineTrace.tla can reuse exactly the same actions to validate    *)
(* traces recorded from the real code with total verdicts.                 *)
(***************************************************************************)
EXTENDS Naturals, Sequences, FiniteSets, TLC

CONSTANTS CheckTable,   \* set of [trigger, source, dest, cond] ("check_" prefix stripped from triggers)
          RunTable      \* set of [trigger, source, dest, cond]

Kinds     == {"matching_cost", "aggregation", "optimization", "semantic_segmentation",
              "cost_volume_confidence", "disparity", "filter", "refinement", "validation", "multiscale"}
CvKinds   == {"aggregation", "optimization", "semantic_segmentation", "cost_volume_confidence"}
DispKinds == {"filter", "refinement", "validation", "multiscale"}
MStates   == {"begin", "cost_volume", "disp_map"}

(***************************************************************************)
(* Documented automaton (sequencing.rst, C01 statement).  A step is a      *)
(* record [kind, sfx, ok]: kind = text before the first '.', sfx = the     *)
(* suffix number (0: none), ok = names a registered method with valid      *)
(* parameters.                                                             *)
(***************************************************************************)
DocDelta(q, k) == CASE q = "begin"       /\ k = "matching_cost" -> "cost_volume"
                    [] q = "cost_volume" /\ k \in CvKinds       -> "cost_volume"
                    [] q = "cost_volume" /\ k = "disparity"     -> "disp_map"
                    [] q = "disp_map"    /\ k \in DispKinds     -> "disp_map"
                    [] OTHER                                     -> "reject"

RECURSIVE DocRunFrom(_, _, _)
DocRunFrom(q, p, i) == IF i > Len(p) THEN q
                       ELSE IF DocDelta(q, p[i].kind) = "reject" THEN "reject"
                       ELSE DocRunFrom(DocDelta(q, p[i].kind), p, i + 1)

DocPath(p)    == Len(p) > 0 /\ DocRunFrom("begin", p, 1) # "reject"
AllOk(p)      == \A i \in 1..Len(p) : p[i].ok
DocAccepts(p) == DocPath(p) /\ AllOk(p)

HasValidation(p) == \E i \in 1..Len(p) : p[i].kind = "validation"
MsIdx(p) == IF \E i \in 1..Len(p) : p[i].kind = "multiscale"
            THEN CHOOSE i \in 1..Len(p) : p[i].kind = "multiscale" /\ \A j \in 1..(i-1) : p[j].kind # "multiscale"
            ELSE 0

Sides(right) == IF right THEN <<"L", "R">> ELSE <<"L">>

RECURSIVE Flat(_)
Flat(ss) == IF Len(ss) = 0 THEN <<>> ELSE Head(ss) \o Flat(Tail(ss))

\* effect entries: <<step index in the pipeline, side, scale>>
StepEff(i, sc, right) == [j \in 1..Len(Sides(right)) |-> <<i, Sides(right)[j], sc>>]
ScaleEff(p, sc, right) ==
   IF sc > 0 THEN Flat([i \in 1..MsIdx(p) |-> StepEff(i, sc, right)])
   ELSE Flat([i \in 1..Len(p) |-> IF p[i].kind = "multiscale" THEN <<>> ELSE StepEff(i, 0, right)])
\* what must execute: coarse to fine, the prefix up to the multiscale step at every coarse scale, every
\* step but the multiscale ones once at full resolution; on the right side iff a validation step exists
DocEffects(p, ns) == Flat([k \in 1..ns |-> ScaleEff(p, ns - k, HasValidation(p))])
\* what configuration checking must visit: every step once, and once more (images exchanged) when the
\* pipeline has a validation step
DocCheckVisits(p) == IF HasValidation(p) THEN [i \in 1..(2 * Len(p)) |-> ((i - 1) % Len(p)) + 1]
                     ELSE [i \in 1..Len(p) |-> i]

(***************************************************************************)
(* State of one machine object.                                            *)
(***************************************************************************)
Idle0 == [ms |-> "begin", chk |-> 0, run |-> 0, rmap |-> FALSE, pc |-> "idle", cur |-> <<>>,
          idx |-> 0, round |-> 0, iter |-> 0, scale |-> 0, ns |-> 1, pend |-> FALSE, sub |-> "none",
          eff |-> <<>>, out |-> "none", err |-> "none"]

Reset(s, out, err) == [s EXCEPT !.ms = "begin", !.chk = 0, !.run = 0, !.pc = "idle", !.pend = FALSE, !.sub = "none",
                                !.out = out, !.err = err]

\* a validation step configured with interpolated_disparity fills occlusions and mismatches after BOTH cross-checks
Fills(stp) == stp.kind = "validation" /\ "fill" \in DOMAIN stp /\ stp.fill

\* ---- configuration checking ------------------------------------------------------------------------
CheckBegin(s, p) ==
   IF s.pc = "idle" /\ Len(p) > 0
   THEN {[lab |-> [ev |-> "CheckBegin"],
          st  |-> [s EXCEPT !.pc = "check", !.cur = p, !.idx = 1, !.round = 1, !.chk = s.chk + 1,
                            !.rmap = FALSE, !.eff = <<>>, !.out = "none", !.err = "none"]]}
   ELSE {}

EnabledCheck(s, k) == {t \in CheckTable : t.trigger = k /\ t.source = s.ms}
EnabledRun(s, k)   == {t \in RunTable   : t.trigger = k /\ t.source = s.ms}

CheckStep(s) ==
   IF s.pc = "check" /\ s.idx <= Len(s.cur)
   THEN LET stp == s.cur[s.idx]
            en  == EnabledCheck(s, stp.kind)
        IN IF s.chk = 0 \/ en = {}
           THEN {[lab |-> [ev |-> "CheckEnd", outcome |-> "rejected", err |-> "sequencing"],
                  st  |-> Reset(s, "rejected", "sequencing")]}
           ELSE IF ~stp.ok
           THEN {[lab |-> [ev |-> "CheckEnd", outcome |-> "rejected", err |-> "parameter"],
                  st  |-> Reset(s, "rejected", "parameter")]}
           ELSE {[lab |-> [ev |-> "CheckCb", idx |-> s.idx, kind |-> stp.kind],
                  st  |-> [s EXCEPT !.ms = t.dest, !.idx = s.idx + 1,
                                    !.rmap = (s.rmap \/ stp.kind = "validation"),
                                    !.eff = Append(s.eff, s.idx)]] : t \in en}
   ELSE {}

\* end of a checking round: tables removed, state back to begin; a validation step triggers the second
\* (right/left) round, which is silent here (its callbacks are CheckStep actions again)
CheckRoundEnd(s) ==
   IF s.pc = "check" /\ s.idx > Len(s.cur)
   THEN IF s.rmap /\ s.round = 1
        THEN {[lab |-> [ev |-> "silent"],
               st  |-> [s EXCEPT !.ms = "begin", !.idx = 1, !.round = 2]]}
        ELSE {[lab |-> [ev |-> "CheckEnd", outcome |-> "accepted", err |-> "none"],
               st  |-> Reset(s, "accepted", "none")]}
   ELSE {}

\* ---- running -----------------------------------------------------------------------------------------
RunBegin(s, p, ns) ==
   IF s.pc = "idle" /\ Len(p) > 0 /\ ns >= 1
   THEN {[lab |-> [ev |-> "RunBegin"],
          st  |-> [s EXCEPT !.pc = "run", !.cur = p, !.ns = ns, !.scale = ns - 1, !.iter = 1, !.idx = 1,
                            !.run = s.run + 1, !.rmap = HasValidation(p), !.eff = <<>>,
                            !.out = "none", !.err = "none", !.pend = FALSE]]}
   ELSE {}

\* pandora.run: for each scale, for each step; break when the machine is back in "begin"
Advance(s) == IF s.ms = "begin" \/ s.idx = Len(s.cur)
              THEN [s EXCEPT !.iter = s.iter + 1, !.idx = 1]
              ELSE [s EXCEPT !.idx = s.idx + 1]

RunStepL(s) ==
   IF s.pc = "run" /\ ~s.pend /\ s.sub = "none" /\ s.iter <= s.ns /\ s.idx <= Len(s.cur)
   THEN LET stp == s.cur[s.idx]
            en  == EnabledRun(s, stp.kind)
        IN IF s.run = 0 \/ en = {}
           THEN {[lab |-> [ev |-> "RunEnd", outcome |-> "runfail", err |-> "sequencing"],
                  st  |-> Reset(s, "runfail", "sequencing")]}
           ELSE UNION {
                 IF t.cond = "is_not_last_scale" /\ s.scale = 0
                 THEN {[lab |-> [ev |-> "silent"], st |-> Advance(s)]}      \* transitions returns False silently
                 ELSE LET s1 == [s EXCEPT !.ms = t.dest,
                                          !.eff = Append(s.eff, <<s.idx, "L", s.scale>>)]
                      IN {[lab |-> [ev |-> "RunCb", idx |-> s.idx, kind |-> stp.kind, side |-> "L", scale |-> s.scale],
                           st  |-> IF s.rmap THEN [s1 EXCEPT !.pend = TRUE]
                                   ELSE Advance([s1 EXCEPT !.scale = IF stp.kind = "multiscale" THEN s.scale - 1 ELSE s.scale])]}
                 : t \in en}
   ELSE {}

RunStepR(s) ==
   IF s.pc = "run" /\ s.pend
   THEN LET stp == s.cur[s.idx]
            s1  == [s EXCEPT !.pend = FALSE, !.eff = Append(s.eff, <<s.idx, "R", s.scale>>),
                             !.scale = IF stp.kind = "multiscale" THEN s.scale - 1 ELSE s.scale]
        IN {[lab |-> [ev |-> "RunCb", idx |-> s.idx, kind |-> stp.kind, side |-> "R", scale |-> s.scale],
             st  |-> IF Fills(stp) THEN [s1 EXCEPT !.sub = "fillL"] ELSE Advance(s1)]}
   ELSE {}

\* the filling sub-steps of a validation step: left map, then right map, both after the two cross-checks (each map is
\* checked against the other one as the disparity step and its successors left it, never against a filled map)
RunFill(s) ==
   IF s.pc = "run" /\ s.sub = "fillL"
   THEN {[lab |-> [ev |-> "RunSub", idx |-> s.idx, what |-> "fill", side |-> "L", scale |-> s.scale],
          st  |-> [s EXCEPT !.sub = "fillR"]]}
   ELSE IF s.pc = "run" /\ s.sub = "fillR"
   THEN {[lab |-> [ev |-> "RunSub", idx |-> s.idx, what |-> "fill", side |-> "R", scale |-> s.scale],
          st  |-> Advance([s EXCEPT !.sub = "none"])]}
   ELSE {}

RunEnd(s) ==
   IF s.pc = "run" /\ ~s.pend /\ s.sub = "none" /\ s.iter > s.ns
   THEN {[lab |-> [ev |-> "RunEnd", outcome |-> "ran", err |-> "none"], st |-> Reset(s, "ran", "none")]}
   ELSE {}

\* all successors that do not start a new operation
Internal(s) == CheckStep(s) \cup CheckRoundEnd(s) \cup RunStepL(s) \cup RunStepR(s) \cup RunFill(s) \cup RunEnd(s)

(***************************************************************************)
(* Properties (C01).  Evaluated on state records so that they can be       *)
(* checked on model states and on states reached while validating traces.  *)
(***************************************************************************)
AcceptIffDocPath(s) == (s.pc = "idle" /\ s.out \in {"accepted", "rejected"})
                          => ((s.out = "accepted") <=> DocAccepts(s.cur))
SequencingErrorNamed(s) == (s.pc = "idle" /\ s.out = "rejected" /\ AllOk(s.cur)) => s.err = "sequencing"
CheckVisitsAll(s)   == (s.pc = "idle" /\ s.out = "accepted") => s.eff = DocCheckVisits(s.cur)
RunsAsWritten(s)    == (s.pc = "idle" /\ s.out \in {"ran", "runfail"})
                          => (s.out = "ran" /\ s.eff = DocEffects(s.cur, s.ns))
BackToInitial(s)    == s.pc = "idle" => (s.ms = "begin" /\ s.chk = 0 /\ s.run = 0 /\ s.sub = "none" /\ ~s.pend)
TypeOK(s)           == s.ms \in MStates /\ s.pc \in {"idle", "check", "run"} /\ s.chk \in 0..1 /\ s.run \in 0..1
=============================================================================
