----------------------------- MODULE PandoraMain -----------------------------
(***************************************************************************)
(* Command-line protocol (C19): check the configuration, read the images,  *)
(* check the datasets, run, save the products, save the configuration;     *)
(* then the saved configuration is fed back (replay).                      *)
(* State: pc, files (set of file names present in the output directory),   *)
(* cfgSaved, hasVal (pipeline has a validation step), nbL / nbR (number of *)
(* confidence bands of the left / right products).                         *)
(***************************************************************************)
EXTENDS Integers, Sequences, FiniteSets, TLC

LeftFiles(nb)  == {"left_disparity.tif", "left_validity_mask.tif"} \cup (IF nb > 0 THEN {"left_confidence_measure.tif"} ELSE {})
RightFiles(nb) == {"right_disparity.tif", "right_validity_mask.tif"} \cup (IF nb > 0 THEN {"right_confidence_measure.tif"} ELSE {})
\* the rasters that must exist after Save: the right ones iff the pipeline has a validation step
ExpectedRasters(hasVal, nbL, nbR) == LeftFiles(nbL) \cup (IF hasVal THEN RightFiles(nbR) ELSE {})
ConfigFile == "cfg/config.json"

Init0 == [pc |-> "start", files |-> {}, hasVal |-> FALSE, nbL |-> 0, nbR |-> 0, replay |-> FALSE]
\* successor-set operators, as in PandoraMachine.tla
CheckConf(s, ok)      == IF s.pc = "start" THEN {[s EXCEPT !.pc = IF ok THEN "checked" ELSE "refused"]} ELSE {}
Read(s)               == IF s.pc = "checked" THEN {[s EXCEPT !.pc = "read"]} ELSE {}
CheckDatasets(s, ok)  == IF s.pc = "read" THEN {[s EXCEPT !.pc = IF ok THEN "datasets_ok" ELSE "refused"]} ELSE {}
Run(s, hv, nl, nr)    == IF s.pc = "datasets_ok" THEN {[s EXCEPT !.pc = "ran", !.hasVal = hv, !.nbL = nl, !.nbR = IF hv THEN nr ELSE 0]} ELSE {}
Save(s)               == IF s.pc = "ran" THEN {[s EXCEPT !.pc = "saved", !.files = s.files \cup ExpectedRasters(s.hasVal, s.nbL, s.nbR)]} ELSE {}
SaveConfig(s)         == IF s.pc = "saved" THEN {[s EXCEPT !.pc = "done", !.files = s.files \cup {ConfigFile}]} ELSE {}
\* properties
NoProductBeforeRun(s) == s.pc \in {"start", "checked", "read", "datasets_ok", "refused"} => s.files = {}
RefusedWritesNothing(s) == s.pc = "refused" => s.files = {}
DoneHasExactlyExpected(s) == s.pc = "done" => s.files = ExpectedRasters(s.hasVal, s.nbL, s.nbR) \cup {ConfigFile}
RightIffValidation(s) == s.pc = "done" => (("right_disparity.tif" \in s.files) <=> s.hasVal)
=============================================================================
