---------------------------- MODULE PandoraManual ----------------------------
(***************************************************************************)
(* The step-by-step API of the control plane (the notebooks' usage):       *)
(*     machine.run_prepare(cfg, left, right[, scale_factor, num_scales])   *)
(*     machine.run(<step name>, cfg)   ...   in ANY order the caller likes *)
(*     machine.run_exit()                                                  *)
(* Unlike pandora.run, nothing here is driven by a checked pipeline: the   *)
(* caller may trigger any step in any state.  C01 ("any other pipeline is  *)
(* rejected with a sequencing error instead of being reordered, truncated  *)
(* or partly applied"; "each configured step takes effect exactly once ... *)
(* on the left data and (when a validation step is present) symmetrically  *)
(* on the right data"; "back in its initial state with no leftover         *)
(* transitions") is stated here trigger by trigger.                        *)
(*                                                                         *)
(* Same conventions as PandoraMachine.tla: successor-set operators over a  *)
(* state record, labelled, so that MC_Manual (model) and ManualTrace       *)
(* (validation of traces of real machine objects) share the actions.       *)
(***************************************************************************)
EXTENDS PandoraMachine

\* m.ms: automaton state; m.loaded: the run transitions are registered; m.ns / m.scale: scales asked for / current scale;
\* m.rmap: the configuration handed to run_prepare names a validation step (right products are computed)
Manual0 == [ms |-> "begin", loaded |-> FALSE, ns |-> 1, scale |-> 0, rmap |-> FALSE]

Prepare(m, ns, rmap) ==
   IF ~m.loaded /\ ns >= 1
   THEN {[lab |-> [ev |-> "Prepare"],
          st  |-> [m EXCEPT !.loaded = TRUE, !.ns = ns, !.scale = ns - 1, !.rmap = rmap]]}   \* m.ms untouched: run_prepare does not reset
   ELSE {}

ExecSides(m) == IF m.rmap THEN <<"L", "R">> ELSE <<"L">>

\* one machine.run(name, cfg): sequencing error (nothing executed, nothing changed), silent refusal of the conditional
\* multiscale transition on the last scale (nothing executed, nothing changed), or exactly one execution per side
Trigger(m, k) ==
   LET en == {t \in RunTable : t.trigger = k /\ t.source = m.ms}
   IN IF ~m.loaded \/ en = {}
      THEN {[lab |-> [ev |-> "Trig", kind |-> k, res |-> "error", sides |-> <<>>], st |-> m]}
      ELSE {IF t.cond = "is_not_last_scale" /\ m.scale = 0
            THEN [lab |-> [ev |-> "Trig", kind |-> k, res |-> "noop", sides |-> <<>>], st |-> m]
            ELSE [lab |-> [ev |-> "Trig", kind |-> k, res |-> "ok", sides |-> ExecSides(m)],
                  st  |-> [m EXCEPT !.ms = t.dest, !.scale = IF k = "multiscale" THEN m.scale - 1 ELSE m.scale]]
            : t \in en}

Exit(m) == {[lab |-> [ev |-> "Exit"], st |-> [m EXCEPT !.ms = "begin", !.loaded = FALSE]]}

(***************************************************************************)
(* Documented behaviour of one trigger, written without the tables.        *)
(***************************************************************************)
DocTrig(m, k) ==
   IF ~m.loaded \/ DocDelta(m.ms, k) = "reject" THEN [res |-> "error", ms |-> m.ms, scale |-> m.scale]
   ELSE IF k = "multiscale"
        THEN (IF m.scale = 0 THEN [res |-> "noop", ms |-> m.ms, scale |-> m.scale]
              ELSE [res |-> "ok", ms |-> "begin", scale |-> m.scale - 1])      \* next scale restarts from matching_cost
        ELSE [res |-> "ok", ms |-> DocDelta(m.ms, k), scale |-> m.scale]

\* the tables realise the documented behaviour, deterministically, for every trigger in this state
TriggersAsDocumented(m) ==
   \A k \in Kinds : \A x \in Trigger(m, k) :
      /\ Cardinality(Trigger(m, k)) = 1
      /\ x.lab.res = DocTrig(m, k).res /\ x.st.ms = DocTrig(m, k).ms /\ x.st.scale = DocTrig(m, k).scale
      /\ (x.lab.res # "ok" => x.st = m)
      /\ (x.lab.res = "ok" => x.lab.sides = ExecSides(m))
ExitRestores(m)  == \A x \in Exit(m) : x.st.ms = "begin" /\ ~x.st.loaded
ManualTypeOK(m)  == m.ms \in MStates /\ m.scale \in 0..(m.ns - 1) /\ m.loaded \in BOOLEAN /\ m.rmap \in BOOLEAN
=============================================================================
