--------------------------- MODULE PandoraParallel ---------------------------
(***************************************************************************)
(* Parallel loops (numba prange) for C18.  A loop is a set of iterations;  *)
(* an iteration is a sequence of memory operations <<"r", cell>> /         *)
(* <<"w", cell>>; a write stores a value computed from the iteration       *)
(* number and everything the iteration has read so far.  Threads execute    *)
(* iterations concurrently: any interleaving of the operation sequences.   *)
(* Theorem (checked by TLC on small instances, MC_Parallel): if the        *)
(* footprints are race free - no cell written by one iteration is read or  *)
(* written by another - every schedule ends in the memory of the           *)
(* sequential execution; without race freedom schedules can disagree.      *)
(***************************************************************************)
EXTENDS Integers, Sequences, FiniteSets

Reads(p)  == {p[k][2] : k \in {j \in 1..Len(p) : p[j][1] = "r"}}
Writes(p) == {p[k][2] : k \in {j \in 1..Len(p) : p[j][1] = "w"}}
\* progs: function iteration id -> operation sequence
RaceFree(progs) == \A i \in DOMAIN progs : \A j \in DOMAIN progs \ {i} :
                      Writes(progs[i]) \cap (Writes(progs[j]) \cup Reads(progs[j])) = {}
\* footprint form used for traces recorded from the real kernels: R, W: iteration id -> set of cells
RaceFreeFootprint(R, W) == \A i \in DOMAIN W : \A j \in DOMAIN W \ {i} : W[i] \cap (W[j] \cup R[j]) = {}
Conflicts(R, W) == {<<i, j>> \in (DOMAIN W) \X (DOMAIN W) : i # j /\ W[i] \cap (W[j] \cup R[j]) # {}}
=============================================================================
