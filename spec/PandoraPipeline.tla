--------------------------- MODULE PandoraPipeline ---------------------------
(***************************************************************************)
(* Data-plane state machine: the step operators of the library modules     *)
(* COMPOSED on one small stereo problem, left and right products together, *)
(* with the pipeline grammar of PandoraMachine (matching_cost, disparity,  *)
(* then refinement / median filter / cross-checking in any order and       *)
(* number).  The right products are by definition the left products of     *)
(* the mirrored problem (C08).  TLC explores every pipeline up to MaxSteps *)
(* on every problem of the scope and checks the cross-step invariants that *)
(* no single step case can express:                                        *)
(*   Coherent            (C04) invalid flag <=> invalid disparity, until a *)
(*                             validation step runs                        *)
(*   NoUndocumentedBit   (C04) whatever the pipeline, with repeated steps  *)
(*   OnlyOwnBitsAdded    (C04) action property                             *)
(*   FinalDispInInterval (C09) valid disparities stay in the interval      *)
(*   RefineHalfSample    (C06) one refinement moves by at most half a      *)
(*                             sample                                      *)
(*   NeverBoth           (C07) never occlusion and mismatch together       *)
(*   MaskFrozenByFilter  (C10) action property                             *)
(* Disparities are rationals <<n, d>> in SAMPLE units; Inv = <<NaN, 1>>.   *)
(***************************************************************************)
EXTENDS Confidence, Disparity, TLC

CONSTANTS MaxSteps
VARIABLES P, L, R, steps, val

Inv == <<NaN, 1>>
Pixels(Q) == (1..Q.rows) \X (1..Q.cols)
MirrorP(Q) == [Q EXCEPT !.L = Q.R, !.R = Q.L, !.mL = Q.mR, !.mR = Q.mL,
                        !.dmin8 = [r \in 1..Q.rows |-> [c \in 1..Q.cols |-> -8 * Q.gmax]],
                        !.dmax8 = [r \in 1..Q.rows |-> [c \in 1..Q.cols |-> -8 * Q.gmin]],
                        !.gmin = -Q.gmax, !.gmax = -Q.gmin]
Nd(Q) == Q.s * (Q.gmax - Q.gmin) + 1
First(Q) == Q.s * Q.gmin

\* ---- one side: [cv, vm (sets of bits), d] ------------------------------------------------------------------------------------
McSide(Q) == [cv |-> [r \in 1..Q.rows |-> [c \in 1..Q.cols |-> [k \in 1..Nd(Q) |-> Cost(Q, r, c, First(Q) + k - 1)]]],
              vm |-> [r \in 1..Q.rows |-> [c \in 1..Q.cols |-> MatchingBits(Q, r, c)]],
              d  |-> [r \in 1..Q.rows |-> [c \in 1..Q.cols |-> Inv]]]
WtaSide(Q, S) == [S EXCEPT !.d = [r \in 1..Q.rows |-> [c \in 1..Q.cols |->
                     LET w == Wta(S.cv[r][c], "min", First(Q), NaN) IN IF w = NaN THEN Inv ELSE <<w, 1>>]]]
IsInvalidPx(S, r, c) == S.vm[r][c] \cap AllInvalidBits # {}
OnSample(q) == q[1] # NaN /\ q[2] = 1
\* refinement (only taken when every valid disparity is a sample, see Next)
RefPixel(Q, S, r, c, method) ==
   IF IsInvalidPx(S, r, c) \/ ~OnSample(S.d[r][c]) THEN <<S.d[r][c], S.vm[r][c]>>
   ELSE LET row == S.cv[r][c]  k == S.d[r][c][1] - First(Q) + 1
        IN IF row[k] = NaN THEN <<S.d[r][c], S.vm[r][c]>>
           ELSE IF k = 1 \/ k = Len(row) \/ Stopped(<<row[k - 1], row[k], row[k + 1]>>, "min")
                THEN <<S.d[r][c], S.vm[r][c] \cup {3}>>
                ELSE <<RatAdd(S.d[r][c], Shift(method, <<row[k - 1], row[k], row[k + 1]>>, "min")), S.vm[r][c]>>
RefSide(Q, S, method) == [S EXCEPT !.d  = [r \in 1..Q.rows |-> [c \in 1..Q.cols |-> RefPixel(Q, S, r, c, method)[1]]],
                                   !.vm = [r \in 1..Q.rows |-> [c \in 1..Q.cols |-> RefPixel(Q, S, r, c, method)[2]]]]
\* 3x3 median of the valid disparities (rationals), where the window fits
RLt(a, b) == a[1] * b[2] < b[1] * a[2]
RLe(a, b) == a[1] * b[2] <= b[1] * a[2]
WinPx(Q, S, r, c) == {x \in ((r - 1)..(r + 1)) \X ((c - 1)..(c + 1)) : ~IsInvalidPx(S, x[1], x[2]) /\ S.d[x[1]][x[2]][1] # NaN}
RKth(S, W, k) == LET v == CHOOSE x \in W : Cardinality({y \in W : RLt(S.d[y[1]][y[2]], S.d[x[1]][x[2]])}) < k
                                              /\ Cardinality({y \in W : RLe(S.d[y[1]][y[2]], S.d[x[1]][x[2]])}) >= k
                 IN S.d[v[1]][v[2]]
RMedian(S, W) == LET n == Cardinality(W)
                 IN IF n % 2 = 1 THEN RKth(S, W, (n + 1) \div 2)
                    ELSE LET a == RKth(S, W, n \div 2)  b == RKth(S, W, n \div 2 + 1) IN <<a[1] * b[2] + b[1] * a[2], 2 * a[2] * b[2]>>
MedSide(Q, S) == [S EXCEPT !.d = [r \in 1..Q.rows |-> [c \in 1..Q.cols |->
                     IF IsInvalidPx(S, r, c) \/ S.d[r][c][1] = NaN \/ r = 1 \/ r = Q.rows \/ c = 1 \/ c = Q.cols THEN S.d[r][c]
                     ELSE RMedian(S, WinPx(Q, S, r, c))]]]
\* cross-checking of side A against side B (Validation.tla); deterministic choice inside the allowed outcomes: the first
\* correspondent, mismatch preferred when allowed (any choice satisfies the invariants below: they are checked for THIS one and,
\* through AllowedAdd, hold for every member)
XcEvent(Q, A, B) == [rows |-> Q.rows, cols |-> Q.cols, gmin |-> Q.gmin, gmax |-> Q.gmax, thr |-> <<1, 1>>,
                     dL |-> [r \in 1..Q.rows |-> [c \in 1..Q.cols |-> IF A.d[r][c][1] = NaN THEN Inv ELSE <<A.d[r][c][1], A.d[r][c][2] * Q.s>>]],
                     dR |-> [r \in 1..Q.rows |-> [c \in 1..Q.cols |-> IF B.d[r][c][1] = NaN THEN Inv ELSE <<B.d[r][c][1], B.d[r][c][2] * Q.s>>]]]
XcAdd(e, A, r, c) == IF IsInvalidPx(A, r, c) \/ A.d[r][c][1] = NaN THEN {}
                     ELSE LET q == CHOOSE x \in Corr(e, r, c) : \A y \in Corr(e, r, c) : x <= y
                              al == AllowedAdd(e, r, c, q)
                          IN IF {} \in al THEN {} ELSE IF {9} \in al THEN {9} ELSE {8}
XcSide(Q, A, B) == LET e == XcEvent(Q, A, B)
                   IN [A EXCEPT !.vm = [r \in 1..Q.rows |-> [c \in 1..Q.cols |-> A.vm[r][c] \cup XcAdd(e, A, r, c)]]]

\* ---- the state machine ------------------------------------------------------------------------------------------------------------
Scope == \* 3 x 4 images over {0, 1} built from two column patterns, at most one masked pixel on the left image, intervals in -1..1
   {[rows |-> 3, cols |-> 4, win |-> 1, s |-> 1, measure |-> "sad", band |-> 1,
     L |-> <<<<a, b, a>>>>, R |-> <<<<b, a, b>>>>, mL |-> ml, mR |-> [r \in 1..3 |-> [c \in 1..4 |-> 0]],
     dmin8 |-> [r \in 1..3 |-> [c \in 1..4 |-> 8 * iv[1]]], dmax8 |-> [r \in 1..3 |-> [c \in 1..4 |-> 8 * iv[2]]], gmin |-> iv[1], gmax |-> iv[2]] :
       a \in {<<0, 1, 1, 0>>, <<1, 0, 1, 1>>}, b \in {<<0, 1, 0, 1>>, <<1, 1, 0, 0>>},
       ml \in {[r \in 1..3 |-> [c \in 1..4 |-> 0]]} \cup {[r \in 1..3 |-> [c \in 1..4 |-> IF r = 2 /\ c = cc THEN v ELSE 0]] : cc \in 1..4, v \in {1, 2}},
       iv \in {<<-1, 1>>, <<0, 1>>, <<-1, 0>>, <<-2, 1>>}}
Empty == [cv |-> <<>>, vm |-> <<>>, d |-> <<>>]
Init == P \in Scope /\ L = Empty /\ R = Empty /\ steps = <<>> /\ val = FALSE
Last == IF steps = <<>> THEN "begin" ELSE steps[Len(steps)]
HasDisp == \E i \in 1..Len(steps) : steps[i] = "disparity"
AllOnSample(S) == \A x \in Pixels(P) : IsInvalidPx(S, x[1], x[2]) \/ OnSample(S.d[x[1]][x[2]])
DoMc   == steps = <<>> /\ L' = McSide(P) /\ R' = McSide(MirrorP(P)) /\ steps' = <<"matching_cost">> /\ UNCHANGED <<P, val>>
DoWta  == Last = "matching_cost" /\ L' = WtaSide(P, L) /\ R' = WtaSide(MirrorP(P), R) /\ steps' = Append(steps, "disparity") /\ UNCHANGED <<P, val>>
DoRef(m) == HasDisp /\ Len(steps) < MaxSteps /\ AllOnSample(L) /\ AllOnSample(R)
            /\ L' = RefSide(P, L, m) /\ R' = RefSide(MirrorP(P), R, m) /\ steps' = Append(steps, "refinement") /\ UNCHANGED <<P, val>>
DoMed  == HasDisp /\ Len(steps) < MaxSteps /\ L' = MedSide(P, L) /\ R' = MedSide(MirrorP(P), R) /\ steps' = Append(steps, "filter") /\ UNCHANGED <<P, val>>
DoVal  == HasDisp /\ Len(steps) < MaxSteps /\ L' = XcSide(P, L, R) /\ R' = XcSide(MirrorP(P), R, L) /\ steps' = Append(steps, "validation") /\ val' = TRUE /\ UNCHANGED P
Next == DoMc \/ DoWta \/ (\E m \in {"vfit", "quadratic"} : DoRef(m)) \/ DoMed \/ DoVal
vars == <<P, L, R, steps, val>>
Spec == Init /\ [][Next]_vars

\* ---- invariants -------------------------------------------------------------------------------------------------------------------
Sides == IF steps = <<>> THEN {} ELSE {<<P, L>>, <<MirrorP(P), R>>}
Coherent == (HasDisp /\ ~val) => \A sd \in Sides : \A x \in Pixels(P) :
               (sd[2].vm[x[1]][x[2]] \cap InvalidBits # {}) <=> (sd[2].d[x[1]][x[2]] = Inv)
NoUndocumentedBit == \A sd \in Sides : \A x \in Pixels(P) : sd[2].vm[x[1]][x[2]] \subseteq DocumentedBits
NeverBoth == \A sd \in Sides : \A x \in Pixels(P) : ~({8, 9} \subseteq sd[2].vm[x[1]][x[2]])
FinalDispInInterval == HasDisp => \A sd \in Sides : \A x \in Pixels(P) :
               LET q == sd[2].d[x[1]][x[2]]
               IN (~IsInvalidPx(sd[2], x[1], x[2]) /\ q[1] # NaN) =>
                     (RLe(<<sd[1].s * sd[1].gmin, 1>>, q) /\ RLe(q, <<sd[1].s * sd[1].gmax, 1>>))
\* a pipeline matching_cost, disparity, refinement: at most half a sample away from the winner
RefineHalfSample == (steps = <<"matching_cost", "disparity", "refinement">>) =>
               \A x \in Pixels(P) : LET w == WtaSide(P, McSide(P)).d[x[1]][x[2]]  q == L.d[x[1]][x[2]]
                                    IN (q[1] # NaN /\ w[1] # NaN) => RatAbsLeHalf(RatSub(q, w))
OwnBits(k) == CASE k = "matching_cost" -> {0, 1, 2, 6, 7} [] k = "refinement" -> {3} [] k = "validation" -> {8, 9} [] OTHER -> {}
OnlyOwnBitsAdded == [][steps # <<>> => \A x \in Pixels(P) : (L'.vm[x[1]][x[2]] \ L.vm[x[1]][x[2]]) \subseteq OwnBits(Last')
                                                             /\ L.vm[x[1]][x[2]] \subseteq L'.vm[x[1]][x[2]]]_vars
MaskFrozenByFilter == [][(steps # <<>> /\ Last' = "filter" /\ Len(steps') > Len(steps)) => (L'.vm = L.vm /\ R'.vm = R.vm)]_vars
\* non-vacuity witnesses (each must be VIOLATED: used by PandoraPipeline_vac.cfg)
NoValidationFlag == \A sd \in Sides : \A x \in Pixels(P) : sd[2].vm[x[1]][x[2]] \cap {8, 9} = {}
NoRefinedDisparity == \A sd \in Sides : \A x \in Pixels(P) : steps = <<>> \/ sd[2].d = <<>> \/ sd[2].d[x[1]][x[2]][2] = 1
=============================================================================
