SPECIFICATION Spec
CONSTANT MaxSteps = 6
INVARIANT Coherent
INVARIANT NoUndocumentedBit
INVARIANT NeverBoth
INVARIANT FinalDispInInterval
INVARIANT RefineHalfSample
PROPERTY OnlyOwnBitsAdded
PROPERTY MaskFrozenByFilter
CHECK_DEADLOCK FALSE
