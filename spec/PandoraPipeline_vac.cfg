SPECIFICATION Spec
CONSTANT MaxSteps = 4
INVARIANT NoValidationFlag
CHECK_DEADLOCK FALSE
