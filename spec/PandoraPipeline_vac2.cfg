SPECIFICATION Spec
CONSTANT MaxSteps = 4
INVARIANT NoRefinedDisparity
CHECK_DEADLOCK FALSE
