---------------------------- MODULE PipelineTrace ----------------------------
(***************************************************************************)
(* Trace validation (binding B3) for the data plane.  Each line of the     *)
(* trace file is one recorded execution of ONE step of the real code       *)
(* ("step case"): the projected state before the step (as left by the real *)
(* code: the chain of a pipeline run is resynchronised on what the code    *)
(* did) and the projected state after it.  TLC computes the specification's*)
(* post-state with the step operators and names every clause that fails.   *)
(* Verdicts are total: one <<"V", {id, failed, detail}>> line per case.     *)
(***************************************************************************)
EXTENDS Criteria, Disparity, Refinement, Validation, Filter, Interpolation, Aggregation, Confidence, Json, IOUtils, TLC

Cases == ndJsonDeserialize(IOEnv.TRACE_FILE)

Pix(e) == (1..e.rows) \X (1..e.cols)

\* ------------------------------------------------------------------ matching_cost (C02, C04) --------
McCellOk(P, o, r, c, k) ==
   LET D == P.s * P.gmin + k - 1
       got == o.cv[r][c][k]
   IN IF P.measure = "zncc"
      THEN IF ~Computable(P, r, c, D) THEN got = NaN ELSE (got # NaN /\ ZnccEncloses(P, r, c, D, got))
      ELSE got = Cost(P, r, c, D)
McBadCells(P, o) == {x \in Pix(P) \X (1..Len(o.cv[1][1])) : ~McCellOk(P, o, x[1][1], x[1][2], x[2])}
McBadFlags(P, o) == {x \in Pix(P) : ~(WellFormedFlag(o.vm[x[1]][x[2]]) /\ Bits(o.vm[x[1]][x[2]]) = MatchingBits(P, x[1], x[2]))}
McNd(P) == P.s * (P.gmax - P.gmin) + 1
\* the reported maximal cost: census win^2, zncc 1; sad / ssd the largest cost the radiometric range of the selected
\* band allows, (largest left-right difference)^(1 or 2) * win^2, truncated to an integer (radiometry is in 1/iq units)
BandValues(img, b) == {img[b][r][c] : r \in 1..Len(img[b]), c \in 1..Len(img[b][1])}
MaxDiff(P) == LET l == BandValues(P.L, P.band)  r == BandValues(P.R, P.band)
                  a == Abs(Max(l) - Min(r))  b == Abs(Max(r) - Min(l))
              IN IF a > b THEN a ELSE b
McCmax(P) == CASE P.measure = "census" -> P.win * P.win
               [] P.measure = "zncc" -> 1
               [] P.measure = "sad" -> (MaxDiff(P) * P.win * P.win) \div P.iq
               [] OTHER -> (MaxDiff(P) * MaxDiff(P) * P.win * P.win) \div (P.iq * P.iq)

McVerdict(e) ==
   LET P == e.P  o == e.out
       shape == Len(o.cv) = P.rows /\ Len(o.cv[1]) = P.cols /\ Len(o.cv[1][1]) = McNd(P)
       badc == IF shape THEN McBadCells(P, o) ELSE {}
       badf == McBadFlags(P, o)
   IN [failed |-> (IF ~shape THEN {"cv_shape"} ELSE {})
                  \cup (IF badc # {} THEN {"cost_value"} ELSE {})
                  \cup (IF badf # {} THEN {"flags"} ELSE {})
                  \cup (IF o.type # TypeMeasure(P.measure) THEN {"type_measure"} ELSE {})
                  \cup (IF McCmax(P) # -1 /\ o.cmax # McCmax(P) THEN {"cmax"} ELSE {}),
       detail |-> IF badc # {} THEN LET x == CHOOSE y \in badc : TRUE
                                    IN <<"cell", x[1][1], x[1][2], x[2], o.cv[x[1][1]][x[1][2]][x[2]],
                                         IF P.measure = "zncc" THEN 0 ELSE Cost(P, x[1][1], x[1][2], P.s * P.gmin + x[2] - 1)>>
                  ELSE IF badf # {} THEN LET x == CHOOSE y \in badf : TRUE
                                         IN <<"flag", x[1], x[2], o.vm[x[1]][x[2]], MatchingBits(P, x[1], x[2])>>
                  ELSE <<>>]

\* ------------------------------------------------------------------ disparity (C03) -----------------
WtaBad(e) == {x \in Pix(e) : e.out.disp[x[1]][x[2]] # Wta(e.cv[x[1]][x[2]], e.type, e.first, e.inv)}
\* stated directly as in C03, independently of the operator above
WtaStatementBad(e) ==
   {x \in Pix(e) :
      LET row == e.cv[x[1]][x[2]]  d == e.out.disp[x[1]][x[2]]  k == d - e.first + 1
      IN ~ IF Finite(row) = {} THEN d = e.inv
           ELSE /\ k \in Finite(row)
                /\ \A j \in Finite(row) : ~Better(e.type, row[j], row[k])
                /\ \A j \in Finite(row) : row[j] = row[k] => k <= j}
DispVerdict(e) ==
   LET bad == WtaBad(e) \cup WtaStatementBad(e)
       badvm == {x \in Pix(e) : e.out.vm[x[1]][x[2]] # e.vm[x[1]][x[2]]}
   IN [failed |-> (IF bad # {} THEN {"wta_value"} ELSE {})
                  \cup (IF badvm # {} THEN {"frame_vm"} ELSE {})
                  \cup (IF ~e.out.frame_cv THEN {"frame_cv"} ELSE {})
                  \cup (IF ~e.out.frame_conf THEN {"frame_conf"} ELSE {}),
       detail |-> IF bad # {} THEN LET x == CHOOSE y \in bad : TRUE
                                   IN <<"pixel", x[1], x[2], e.out.disp[x[1]][x[2]], Wta(e.cv[x[1]][x[2]], e.type, e.first, e.inv)>>
                  ELSE <<>>]

\* ------------------------------------------------------------------ flags through any step (C04) ---
\* e: kind, method, interp (BOOLEAN: validation with interpolated_disparity), rows, cols, win, inv,
\*    prevalid (BOOLEAN: no validation step has run yet), before/after: [vm, disp] (before.vm may be absent for
\*    the first step: then e.first = TRUE)
OwnBits(e) == CASE e.kind = "matching_cost" -> {0, 1, 2, 6, 7}
                [] e.kind = "refinement" -> {3}
                [] e.kind = "validation" -> IF e.interp THEN {8, 9, 4, 5} ELSE {8, 9}
                [] e.kind = "filter" /\ e.method = "median_for_intervals" -> {11}
                [] OTHER -> {}
\* the only bits a step may clear: filling replaces 8 by 4 and 9 by 5 (sgm may turn a mismatch into an occlusion)
RemovableBits(e) == IF e.kind = "validation" /\ e.interp THEN {8, 9} ELSE {}
BorderPix(e, r, c) == LET o == (e.win - 1) \div 2 IN r <= o \/ r > e.rows - o \/ c <= o \/ c > e.cols - o
FlagVerdict(e) ==
   LET A(x) == e.after.vm[x[1]][x[2]]
       B(x) == IF e.first THEN 0 ELSE e.before.vm[x[1]][x[2]]
       wf    == {x \in Pix(e) : ~(WellFormedFlag(A(x)) /\ Bits(A(x)) \subseteq DocumentedBits)}
       added == {x \in Pix(e) \ wf : ~((Bits(A(x)) \ Bits(B(x))) \subseteq OwnBits(e))}
       remov == {x \in Pix(e) \ wf : ~BorderPix(e, x[1], x[2]) /\ ~((Bits(B(x)) \ Bits(A(x))) \subseteq RemovableBits(e))}
       bord  == {x \in Pix(e) \ wf : BorderPix(e, x[1], x[2]) /\ Bits(A(x)) # {0}}
       coh   == IF e.prevalid /\ e.hasdisp
                THEN {x \in Pix(e) \ wf : IsInvalidFlag(Bits(A(x))) # (e.after.disp[x[1]][x[2]] = e.inv)}
                ELSE {}
       one(S) == IF S = {} THEN <<>> ELSE LET x == CHOOSE y \in S : TRUE IN <<x[1], x[2], B(x), A(x)>>
   IN [failed |-> (IF wf # {} THEN {"undocumented_bit"} ELSE {})
                  \cup (IF added # {} THEN {"only_own_bits_added"} ELSE {})
                  \cup (IF remov # {} THEN {"bit_removed"} ELSE {})
                  \cup (IF bord # {} THEN {"border_bit0_only"} ELSE {})
                  \cup (IF coh # {} THEN {"invalid_flag_iff_invalid_disparity"} ELSE {}),
       detail |-> IF wf # {} THEN one(wf) ELSE IF added # {} THEN one(added) ELSE IF remov # {} THEN one(remov)
                  ELSE IF bord # {} THEN one(bord) ELSE one(coh)]

\* ------------------------------------------------------------------ refinement (C06) ----------------
\* disparities and coefficients are rationals <<n, d>> in SAMPLE units (disparity * subpix); <<NaN, 1>> = NaN
IsNum(q) == q[1] # NaN /\ q[1] # 1000000009
RefPixelFail(e, x) ==
   LET bv == Bits(e.before.vm[x[1]][x[2]])   av == Bits(e.after.vm[x[1]][x[2]])
       D == e.before.disp[x[1]][x[2]]        D2 == e.after.disp[x[1]][x[2]]
       co == e.after.coef[x[1]][x[2]]        row == e.cv[x[1]][x[2]]
       last == e.first + Len(row) - 1
   IN IF bv \cap AllInvalidBits # {}
      THEN (IF D2 # D THEN {"invalid_untouched"} ELSE {}) \cup (IF av # bv THEN {"invalid_untouched_flags"} ELSE {})
      ELSE (IF ~((av \ bv) \subseteq {3} /\ bv \subseteq av) THEN {"no_other_bit"} ELSE {})
           \* generic clauses on milli-sample integers (the received disparity may be any float after a filter):
           \* delta3 = round(1000 * |after - before| * subpix), after3 = round(1000 * after * subpix); 1 unit of rounding slack
           \cup (IF e.before.d3[x[1]][x[2]] # NaN /\ ~(e.after.delta3[x[1]][x[2]] # NaN /\ e.after.delta3[x[1]][x[2]] <= 501) THEN {"half_sample_bound"} ELSE {})
           \cup (IF e.before.d3[x[1]][x[2]] # NaN /\ e.after.d3[x[1]][x[2]] # NaN
                     /\ ~(1000 * e.first - 1 <= e.after.d3[x[1]][x[2]] /\ e.after.d3[x[1]][x[2]] <= 1000 * last + 1) THEN {"in_interval"} ELSE {})
           \* a received disparity strictly inside the FIRST half sample of the interval: whichever sample a reader associates with it
           \* (the one below or the nearest one) is the first one, which sits on an end of the interval - the pixel must be left
           \* where it was with bit 3 (there is no cost on its left to fit with)
           \cup (IF e.before.d3[x[1]][x[2]] # NaN /\ e.before.d3[x[1]][x[2]] > 1000 * e.first + 2 /\ e.before.d3[x[1]][x[2]] < 1000 * e.first + 498
                     /\ row[1] # NaN /\ ~(e.after.delta3[x[1]][x[2]] = 0 /\ av = bv \cup {3})
                 THEN {"stopped_exactly_when"} ELSE {})
           \cup (IF IsNum(D) /\ D[2] = 1 /\ D[1] >= e.first /\ D[1] <= last /\ row[D[1] - e.first + 1] # NaN
                 THEN LET k == D[1] - e.first + 1
                          onEnd == (k = 1 \/ k = Len(row))
                          t == IF onEnd THEN <<NaN, row[k], NaN>> ELSE <<row[k - 1], row[k], row[k + 1]>>
                      IN IF onEnd \/ Stopped(t, e.type)
                         THEN (IF ~(D2 = D /\ av = bv \cup {3}) THEN {"stopped_exactly_when"} ELSE {})
                              \cup (IF ~(IsNum(co) /\ RatEq(co, Int2Rat(row[k]))) THEN {"coefficient"} ELSE {})
                         ELSE (IF ~(IsNum(D2) /\ D2[2] > 0 /\ RatEq(D2, RatAdd(D, Shift(e.method, t, e.type)))) THEN {"optimum"} ELSE {})
                              \cup (IF 3 \in (av \ bv) THEN {"stopped_exactly_when"} ELSE {})
                              \cup (IF ~(IsNum(co) /\ co[2] > 0 /\ RatEq(co, FitCost(e.method, t, e.type))) THEN {"coefficient"} ELSE {})
                 ELSE {})
RefVerdict(e) ==
   LET fails == [x \in Pix(e) |-> RefPixelFail(e, x)]
       bad == {x \in Pix(e) : fails[x] # {}}
   IN [failed |-> UNION {fails[x] : x \in Pix(e)},
       detail |-> IF bad = {} THEN <<>>
                  ELSE LET x == CHOOSE y \in bad : TRUE
                       IN <<x[1], x[2], e.cv[x[1]][x[2]], e.before.disp[x[1]][x[2]], e.after.disp[x[1]][x[2]],
                            e.after.coef[x[1]][x[2]], e.before.vm[x[1]][x[2]], e.after.vm[x[1]][x[2]]>>]

\* ------------------------------------------------------------------ cross-checking (C07) ------------
\* e: rows, cols, win, gmin, gmax, thr, dL, dR, vm (before), out: [vm, band ([row][col] rational, <<NaN,1>> = NaN,
\*    <<1000000009,1>> = not finite/inexact), frame_dL, frame_dR, frame_conf, band_name_ok]
XcPixelFail(e, x) ==
   LET r == x[1]  c == x[2]
       bv == Bits(e.vm[r][c])  av == Bits(e.out.vm[r][c])  band == e.out.band[r][c]
   IN IF BorderPix(e, r, c) THEN (IF av # {0} THEN {"border_bit0_only"} ELSE {})
      ELSE IF bv \cap AllInvalidBits # {} \/ ~RIsNum(e.dL[r][c])
      THEN (IF av # bv THEN {"invalid_not_reexamined"} ELSE {}) \cup (IF RIsNum(e.dL[r][c]) /\ band[1] # NaN THEN {"invalid_band_nan"} ELSE {})
      ELSE (IF ~(bv \subseteq av /\ (av \ bv) \subseteq {8, 9}) THEN {"only_8_9_added"} ELSE {})
           \cup (IF {8, 9} \subseteq av THEN {"never_both"} ELSE {})
           \cup (IF ~(\E q \in Corr(e, r, c) :
                        /\ (av \ bv) \in AllowedAdd(e, r, c, q)
                        /\ (IF InRight(e, q) THEN (IF RIsNum(e.dR[r][q]) THEN (RIsNum(band) /\ band[2] > 0 /\ RatEq(band, Dist(e, r, c, q)))
                                                     ELSE band[1] # NaN)
                             ELSE band[1] = NaN))
                 THEN {"cross_check_exact"} ELSE {})
XcVerdict(e) ==
   LET fails == [x \in Pix(e) |-> XcPixelFail(e, x)]
       bad == {x \in Pix(e) : fails[x] # {}}
   IN [failed |-> UNION {fails[x] : x \in Pix(e)}
                  \cup (IF ~e.out.frame_dL THEN {"disparity_unchanged"} ELSE {})
                  \cup (IF ~e.out.frame_dR THEN {"other_map_unchanged"} ELSE {})
                  \cup (IF ~e.out.frame_conf THEN {"old_bands_unchanged"} ELSE {})
                  \cup (IF ~e.out.band_name_ok THEN {"band_name"} ELSE {}),
       detail |-> IF bad = {} THEN <<>>
                  ELSE LET x == CHOOSE y \in bad : TRUE
                       IN <<x[1], x[2], e.dL[x[1]][x[2]], e.vm[x[1]][x[2]], e.out.vm[x[1]][x[2]], e.out.band[x[1]][x[2]], e.dR[x[1]]>>]

\* ------------------------------------------------------------------ filters (C10) --------------------
FiltPixelFail(e, x) ==
   LET r == x[1]  c == x[2]  o == e.out.d[r][c]
   IN IF e.bad[r][c] THEN (IF o # e.d[r][c] THEN {"invalid_pixel_unchanged"} ELSE {})
      ELSE IF ~WinFits(e, r, c) THEN (IF o # e.d[r][c] THEN {"edge_pixel_unchanged"} ELSE {})
      ELSE IF e.method = "median" THEN (IF ~MedianOk(e, r, c, o) THEN {"median_value"} ELSE {})
      ELSE (IF ~BilateralOk(e, r, c, o) THEN {"bilateral_enclosure"} ELSE {})
FiltVerdict(e) ==
   LET fails == [x \in Pix(e) |-> FiltPixelFail(e, x)]
       bad == {x \in Pix(e) : fails[x] # {}}
   IN [failed |-> UNION {fails[x] : x \in Pix(e)}
                  \cup (IF ~e.out.mask_ok THEN {"mask_unchanged"} ELSE {})
                  \cup (IF ~e.out.frame_other THEN {"other_data_unchanged"} ELSE {}),
       detail |-> IF bad = {} THEN <<>>
                  ELSE LET x == CHOOSE y \in bad : TRUE
                       IN <<x[1], x[2], e.d[x[1]][x[2]], e.out.d[x[1]][x[2]],
                            IF WinFits(e, x[1], x[2]) THEN {e.d[y[1]][y[2]] : y \in WinCells(e, x[1], x[2])} ELSE {}>>]

\* regularisation of median_for_intervals (C10 / C12): run 0 = same filter without regularisation, run 1 = with
\* regularisation (quantile 1), possibly applied repeatedly; bands jointly rank-encoded
RegVerdict(e) ==
   LET b0(x) == Bits(e.vm0[x[1]][x[2]])  b1(x) == Bits(e.vm1[x[1]][x[2]])
       wf == {x \in Pix(e) : ~WellFormedFlag(e.vm1[x[1]][x[2]])}
       badbits == {x \in Pix(e) \ wf : ~(b0(x) \subseteq b1(x) /\ (b1(x) \ b0(x)) \subseteq {11})}
       notreg == {x \in Pix(e) \ wf : e.strict /\ 11 \notin b1(x) /\ ~(e.inf1[x[1]][x[2]] = e.inf0[x[1]][x[2]] /\ e.sup1[x[1]][x[2]] = e.sup0[x[1]][x[2]])}
       \* (not demanded after REPEATED regularisation: a regularisation also gives bounds to pixels that had none - invalid ones -, so the
       \* second median sees more neighbours than in the run without regularisation and may move either way; e.check_widen = FALSE there)
       widen == {x \in Pix(e) : ("check_widen" \notin DOMAIN e \/ e.check_widen) /\ e.inf0[x[1]][x[2]] # NaN /\ e.sup0[x[1]][x[2]] # NaN
                                 /\ ~(e.inf1[x[1]][x[2]] # NaN /\ e.sup1[x[1]][x[2]] # NaN
                                      /\ e.inf1[x[1]][x[2]] <= e.inf0[x[1]][x[2]] /\ e.sup1[x[1]][x[2]] >= e.sup0[x[1]][x[2]])}
       one(S) == IF S = {} THEN <<>> ELSE LET x == CHOOSE y \in S : TRUE
                 IN <<x[1], x[2], e.vm0[x[1]][x[2]], e.vm1[x[1]][x[2]], e.inf0[x[1]][x[2]], e.inf1[x[1]][x[2]], e.sup0[x[1]][x[2]], e.sup1[x[1]][x[2]]>>
   IN [failed |-> (IF wf # {} THEN {"undocumented_bit"} ELSE {})
                  \cup (IF badbits # {} THEN {"mask_only_bit11"} ELSE {})
                  \cup (IF notreg # {} THEN {"unregularized_pixel_unchanged"} ELSE {})
                  \cup (IF widen # {} THEN {"regularization_only_widens"} ELSE {})
                  \cup (IF ~e.frame_other THEN {"other_data_unchanged"} ELSE {}),
       detail |-> IF wf # {} THEN one(wf) ELSE IF badbits # {} THEN one(badbits) ELSE IF notreg # {} THEN one(notreg) ELSE one(widen)]

\* bilateral filter (C10): the spatial weight of a neighbour depends on its DISTANCE to the filtered pixel only. e.a[k], e.b[k]:
\* outputs (in 1e-6 units) at the same pixel of two maps that differ by where a single outlier sits, at two positions equidistant
\* from the pixel (left / right, up / down, the diagonals, a row neighbour / a column neighbour)
BilSymVerdict(e) ==
   LET bad == {k \in 1..Len(e.a) : Abs(e.a[k] - e.b[k]) > 1}
   IN [failed |-> IF bad = {} THEN {} ELSE {"spatial_weight_symmetric"},
       detail |-> IF bad = {} THEN <<>> ELSE LET k == CHOOSE j \in bad : TRUE IN <<k, e.a[k], e.b[k]>>]

\* bilateral filter (C10): the spatial kernel is the Gaussian of the CONFIGURED sigma_space.  With a quasi-constant range kernel
\* (sigma_color 1000, outlier 1) the outputs r1, r2 for an outlier at distances 1 and 2 satisfy ln(r1 / r2) = 3 / (2 sigma^2);
\* e.v[k] = round(1e6 * ln(r1 / r2) * 2 sigma^2 / 3) for the k-th probed sigma (computed by the harness: TLC has no logarithm)
BilLawVerdict(e) ==
   LET bad == {k \in 1..Len(e.v) : Abs(e.v[k] - 1000000) > 2000}
   IN [failed |-> IF bad = {} THEN {} ELSE {"spatial_weight_gaussian"},
       detail |-> IF bad = {} THEN <<>> ELSE LET k == CHOOSE j \in bad : TRUE IN <<k, e.sigma1000[k], e.v[k]>>]

\* ------------------------------------------------------------------ occlusion / mismatch filling (C14)
\* e: pass, rows, cols, before: [d, vm], after: [d, vm]   (d scaled by 8; NaN sentinel for NaN)
FillPixelFail(e, x) ==
   LET r == x[1]  c == x[2]  b == e.before  a == e.after
       got == <<a.d[r][c], a.vm[r][c]>>
       flagged == Has(b, r, c, 8) \/ Has(b, r, c, 9)
       rng == ValidRange(e, b)
   IN (IF ~flagged /\ got # <<b.d[r][c], b.vm[r][c]>> THEN {"only_flagged_pixels_change"} ELSE {})
      \cup (IF flagged /\ ~(got \in Expected(e, b, r, c)) THEN {"fill_value_and_flags"} ELSE {})
      \* statement-level clauses on what the code did
      \cup (IF flagged /\ got[2] # b.vm[r][c] /\ ({4, 5} \cap (Bits(got[2]) \ Bits(b.vm[r][c])) # {})
               /\ ~(got[1] # NaN /\ rng # {} /\ got[1] >= MinVal([d |-> b.d], {y \in (1..e.rows) \X (1..e.cols) : IsValidPx(b, y[1], y[2])})
                                     /\ got[1] <= MaxVal([d |-> b.d], {y \in (1..e.rows) \X (1..e.cols) : IsValidPx(b, y[1], y[2])}))
            THEN {"filled_is_finite_and_enclosed"} ELSE {})
FillVerdict(e) ==
   LET fails == [x \in Pix(e) |-> FillPixelFail(e, x)]
       bad == {x \in Pix(e) : fails[x] # {}}
   IN [failed |-> UNION {fails[x] : x \in Pix(e)},
       detail |-> IF bad = {} THEN <<>>
                  ELSE LET x == CHOOSE y \in bad : TRUE
                       IN <<x[1], x[2], e.before.d[x[1]][x[2]], e.before.vm[x[1]][x[2]], e.after.d[x[1]][x[2]], e.after.vm[x[1]][x[2]],
                            Expected(e, e.before, x[1], x[2])>>]

\* ------------------------------------------------------------------ cbca aggregation (C11) ----------
\* e.out[r][c][k] = <<n, d>> rational (or <<NaN, 1>>)
AggCellFail(e, T, x) ==
   LET r == x[1][1]  c == x[1][2]  k == x[2]  D == e.first + k - 1
       got == e.out[r][c][k]
   IN IF e.cv[r][c][k] = NaN THEN (IF got[1] # NaN THEN {"nan_stays_nan"} ELSE {})
      ELSE IF got[1] = NaN THEN {"no_new_nan"}
      ELSE IF ~(IsNum(got) /\ got[2] > 0 /\ HasCorr(e, c, D) /\ InCrop(e, <<"L", 0>>, r, c)
                /\ RatEq(got, <<AggSumTab(e, T, r, c, D, k), AggCountTab(e, T, r, c, D)>>)) THEN {"support_region_average"} ELSE {}
AggVerdict(e) ==
   LET T == ArmTable(e)
       cells == Pix(e) \X (1..Len(e.cv[1][1]))
       fails == [x \in cells |-> AggCellFail(e, T, x)]
       bad == {x \in cells : fails[x] # {}}
   IN [failed |-> UNION {fails[x] : x \in cells},
       detail |-> IF bad = {} THEN <<>>
                  ELSE LET x == CHOOSE y \in bad : TRUE
                       IN <<x[1][1], x[1][2], x[2], e.cv[x[1][1]][x[1][2]][x[2]], e.out[x[1][1]][x[1][2]][x[2]],
                            IF e.cv[x[1][1]][x[1][2]][x[2]] # NaN /\ InCrop(e, <<"L", 0>>, x[1][1], x[1][2]) /\ HasCorr(e, x[1][2], e.first + x[2] - 1)
                            THEN <<AggSumTab(e, T, x[1][1], x[1][2], e.first + x[2] - 1, x[2]), AggCountTab(e, T, x[1][1], x[1][2], e.first + x[2] - 1)>>
                            ELSE <<>>>>]

\* ------------------------------------------------------------------ confidence measures (C12) --------
\* an observed value that may enter integer arithmetic (neither a sentinel nor large enough to overflow 32 bits once multiplied)
SmallNum(v) == v > -1000000 /\ v < 1000000
\* e.method in {"ambiguity", "risk", "interval_bounds", "std_intensity"}; outputs in e.out (integers, see the driver)
ConfPixelFail(e, x) ==
   LET row == IF e.method = "std_intensity" THEN <<>> ELSE Row(e, x[1], x[2])  allnan == FiniteIdx(row) = {}
   IN CASE e.method = "ambiguity" ->
             \* out.count = the unnormalised integral (1 - value when normalisation is off)
             (IF ~(AmbLo(e, row) <= e.out.count[x[1]][x[2]] /\ e.out.count[x[1]][x[2]] <= AmbHi(e, row)) THEN {"ambiguity_integral"} ELSE {})
        [] e.method = "risk" ->
             IF allnan THEN (IF e.out.rmax[x[1]][x[2]] # NaN \/ e.out.rmin[x[1]][x[2]] # NaN THEN {"risk_nan_when_no_cost"} ELSE {})
             ELSE IF ~(SmallNum(e.out.rmax[x[1]][x[2]]) /\ SmallNum(e.out.rmin[x[1]][x[2]])) THEN {"risk_ordered"}   \* NaN / not finite / absurd
             ELSE \* rmax / rmin = round(1000 * risk): |1000 * sum - out * K| <= K
                  (IF NoTie(e, row) /\ ~(Abs(1000 * RiskMaxSum(e, row) - e.out.rmax[x[1]][x[2]] * e.K) <= e.K) THEN {"risk_max"} ELSE {})
                  \cup (IF NoTie(e, row) /\ ~(Abs(1000 * RiskMinSum(e, row) - e.out.rmin[x[1]][x[2]] * e.K) <= e.K) THEN {"risk_min"} ELSE {})
                  \cup (IF ~(e.out.rmin[x[1]][x[2]] # NaN /\ e.out.rmax[x[1]][x[2]] # NaN /\ 0 <= e.out.rmin[x[1]][x[2]] + 1
                           /\ e.out.rmin[x[1]][x[2]] <= e.out.rmax[x[1]][x[2]] + 1) THEN {"risk_ordered"} ELSE {})
        [] e.method = "interval_bounds" ->
             IF allnan THEN (IF e.out.inf[x[1]][x[2]] # NaN \/ e.out.sup[x[1]][x[2]] # NaN THEN {"bounds_nan_when_no_cost"} ELSE {})
             ELSE \* inf / sup = scaled disparity (disparity * s) of the bound
                  (IF ~(<<e.out.inf[x[1]][x[2]] - e.first + 1, e.out.sup[x[1]][x[2]] - e.first + 1>> \in BoundsAllowed(e, row)) THEN {"interval_bounds"} ELSE {})
                  \cup (IF ~(e.out.inf[x[1]][x[2]] - e.first + 1 <= WtaIdxMin(row) /\ WtaIdxMin(row) <= e.out.sup[x[1]][x[2]] - e.first + 1) THEN {"bounds_bracket_wta"} ELSE {})
        [] e.method = "std_intensity" ->
             \* out.q = round(100 * std of the left window); std^2 = VarLN / n^2 (exact integers); NaN on the border
             LET q == e.out.q[x[1]][x[2]]  n == e.win * e.win
             IN IF ~WindowInside(e, x[1], x[2]) THEN (IF q # NaN THEN {"std_border_nan"} ELSE {})
                ELSE IF ~SmallNum(q) \/ q < 0 THEN {"std_intensity"}
                ELSE IF ~((IF q > 0 THEN (q - 1) * (q - 1) * n * n <= 10000 * VarLN(e, x[1], x[2]) ELSE TRUE)
                          /\ 10000 * VarLN(e, x[1], x[2]) <= (q + 1) * (q + 1) * n * n) THEN {"std_intensity"} ELSE {}
        [] OTHER -> {}
\* normalised ambiguity (values in thousandths): in [0, 1], order-consistent with the integral, extremes at 1 and 0
AmbNormFail(e) ==
   LET P == Pix(e)
       v(x) == e.out.norm[x[1]][x[2]]
       a(x) == e.out.count[x[1]][x[2]]
   IN (IF \E x \in P : v(x) = NaN \/ v(x) < 0 \/ v(x) > 1000 THEN {"ambiguity_range"} ELSE {})
      \cup (IF \E x \in P, y \in P : a(x) < a(y) /\ v(x) < v(y) THEN {"ambiguity_order"} ELSE {})
      \cup (IF \E x \in P, y \in P : a(x) = a(y) /\ v(x) # v(y) THEN {"ambiguity_order"} ELSE {})
      \cup (IF ~(\E x \in P : v(x) = 1000) \/ ~(\E x \in P : v(x) = 0) THEN {"ambiguity_extremes"} ELSE {})
ConfVerdict(e) ==
   LET fails == [x \in Pix(e) |-> ConfPixelFail(e, x)]
       bad == {x \in Pix(e) : fails[x] # {}}
       nf == IF e.method = "ambiguity" /\ e.normalized THEN AmbNormFail(e) ELSE {}
   IN [failed |-> UNION {fails[x] : x \in Pix(e)} \cup nf
                  \cup (IF ~e.out.bands_ok THEN {"bands_appended_and_named"} ELSE {})
                  \cup (IF ~e.out.frame_ok THEN {"old_bands_and_costs_unchanged"} ELSE {}),
       detail |-> IF bad = {} THEN <<>> ELSE LET x == CHOOSE y \in bad : TRUE IN <<x[1], x[2], IF e.method = "std_intensity" THEN <<>> ELSE Row(e, x[1], x[2])>>]

Verdict(e) == CASE e.step = "matching_cost" -> McVerdict(e)
                [] e.step = "confidence" -> ConfVerdict(e)
                [] e.step = "aggregation" -> AggVerdict(e)
                [] e.step = "fill" -> FillVerdict(e)
                [] e.step = "regularize" -> RegVerdict(e)
                [] e.step = "filter" -> FiltVerdict(e)
                [] e.step = "bilateral_symmetry" -> BilSymVerdict(e)
                [] e.step = "bilateral_law" -> BilLawVerdict(e)
                [] e.step = "cross_check" -> XcVerdict(e)
                [] e.step = "refinement" -> RefVerdict(e)
                [] e.step = "flags" -> FlagVerdict(e)
                [] e.step = "disparity" -> DispVerdict(e)
                [] OTHER -> [failed |-> {"unknown_step"}, detail |-> <<>>]

VARIABLE i
Init == i = 1
Next == /\ i <= Len(Cases)
        /\ LET v == Verdict(Cases[i])
           IN IF PrintT(<<"V", ToJson([id |-> Cases[i].id, failed |-> v.failed, detail |-> v.detail])>>)
              THEN i' = i + 1 ELSE FALSE
=============================================================================
