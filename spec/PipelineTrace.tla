---------------------------- MODULE PipelineTrace ----------------------------
(***************************************************************************)
(* Trace validation (binding B3) for the data plane.  Each line of the     *)
(* trace file is one recorded execution of ONE step of the real code       *)
(* ("step case"): the projected state before the step (as left by the real *)
(* code: the chain of a pipeline run is resynchronised on what the code    *)
(* did) and the projected state after it.  TLC computes the specification's*)
(* post-state with the step operators and names every clause that fails.   *)
(* Verdicts are total: one <<"V", {id, failed, detail}>> line per case.     *)
(***************************************************************************)
EXTENDS Criteria, Disparity, Json, IOUtils, TLC

Cases == ndJsonDeserialize(IOEnv.TRACE_FILE)

Pix(e) == (1..e.rows) \X (1..e.cols)

\* ------------------------------------------------------------------ matching_cost (C02, C04) --------
McCellOk(P, o, r, c, k) ==
   LET D == P.s * P.gmin + k - 1
       got == o.cv[r][c][k]
   IN IF P.measure = "zncc"
      THEN IF ~Computable(P, r, c, D) THEN got = NaN ELSE (got # NaN /\ ZnccEncloses(P, r, c, D, got))
      ELSE got = Cost(P, r, c, D)
McBadCells(P, o) == {x \in Pix(P) \X (1..Len(o.cv[1][1])) : ~McCellOk(P, o, x[1][1], x[1][2], x[2])}
McBadFlags(P, o) == {x \in Pix(P) : ~(WellFormedFlag(o.vm[x[1]][x[2]]) /\ Bits(o.vm[x[1]][x[2]]) = MatchingBits(P, x[1], x[2]))}
McNd(P) == P.s * (P.gmax - P.gmin) + 1
McCmax(P) == CASE P.measure = "census" -> P.win * P.win
               [] P.measure = "zncc" -> 1
               [] OTHER -> -1           \* sad / ssd: depends on the radiometric range, not claimed

McVerdict(e) ==
   LET P == e.P  o == e.out
       shape == Len(o.cv) = P.rows /\ Len(o.cv[1]) = P.cols /\ Len(o.cv[1][1]) = McNd(P)
       badc == IF shape THEN McBadCells(P, o) ELSE {}
       badf == McBadFlags(P, o)
   IN [failed |-> (IF ~shape THEN {"cv_shape"} ELSE {})
                  \cup (IF badc # {} THEN {"cost_value"} ELSE {})
                  \cup (IF badf # {} THEN {"flags"} ELSE {})
                  \cup (IF o.type # TypeMeasure(P.measure) THEN {"type_measure"} ELSE {})
                  \cup (IF McCmax(P) # -1 /\ o.cmax # McCmax(P) THEN {"cmax"} ELSE {}),
       detail |-> IF badc # {} THEN LET x == CHOOSE y \in badc : TRUE
                                    IN <<"cell", x[1][1], x[1][2], x[2], o.cv[x[1][1]][x[1][2]][x[2]],
                                         IF P.measure = "zncc" THEN 0 ELSE Cost(P, x[1][1], x[1][2], P.s * P.gmin + x[2] - 1)>>
                  ELSE IF badf # {} THEN LET x == CHOOSE y \in badf : TRUE
                                         IN <<"flag", x[1], x[2], o.vm[x[1]][x[2]], MatchingBits(P, x[1], x[2])>>
                  ELSE <<>>]

\* ------------------------------------------------------------------ disparity (C03) -----------------
WtaBad(e) == {x \in Pix(e) : e.out.disp[x[1]][x[2]] # Wta(e.cv[x[1]][x[2]], e.type, e.first, e.inv)}
\* stated directly as in C03, independently of the operator above
WtaStatementBad(e) ==
   {x \in Pix(e) :
      LET row == e.cv[x[1]][x[2]]  d == e.out.disp[x[1]][x[2]]  k == d - e.first + 1
      IN ~ IF Finite(row) = {} THEN d = e.inv
           ELSE /\ k \in Finite(row)
                /\ \A j \in Finite(row) : ~Better(e.type, row[j], row[k])
                /\ \A j \in Finite(row) : row[j] = row[k] => k <= j}
DispVerdict(e) ==
   LET bad == WtaBad(e) \cup WtaStatementBad(e)
       badvm == {x \in Pix(e) : e.out.vm[x[1]][x[2]] # e.vm[x[1]][x[2]]}
   IN [failed |-> (IF bad # {} THEN {"wta_value"} ELSE {})
                  \cup (IF badvm # {} THEN {"frame_vm"} ELSE {})
                  \cup (IF ~e.out.frame_cv THEN {"frame_cv"} ELSE {})
                  \cup (IF ~e.out.frame_conf THEN {"frame_conf"} ELSE {}),
       detail |-> IF bad # {} THEN LET x == CHOOSE y \in bad : TRUE
                                   IN <<"pixel", x[1], x[2], e.out.disp[x[1]][x[2]], Wta(e.cv[x[1]][x[2]], e.type, e.first, e.inv)>>
                  ELSE <<>>]

Verdict(e) == CASE e.step = "matching_cost" -> McVerdict(e)
                [] e.step = "disparity" -> DispVerdict(e)
                [] OTHER -> [failed |-> {"unknown_step"}, detail |-> <<>>]

VARIABLE i
Init == i = 1
Next == /\ i <= Len(Cases)
        /\ LET v == Verdict(Cases[i])
           IN IF PrintT(<<"V", ToJson([id |-> Cases[i].id, failed |-> v.failed, detail |-> v.detail])>>)
              THEN i' = i + 1 ELSE FALSE
=============================================================================
