----------------------------- MODULE Refinement -----------------------------
(***************************************************************************)
(* Sub-pixel refinement (C06) on exact rationals <<n, d>> (d > 0).         *)
(* A cost triple is <<c0, c1, c2>>: the costs of the samples before, at    *)
(* and after the pixel's disparity sample; integers or NaN.                *)
(* Shifts are in SAMPLE units (one sample = 1/subpix).                     *)
(***************************************************************************)
EXTENDS Criteria

RatEq(a, b) == a[1] * b[2] = b[1] * a[2]
RatLe(a, b) == a[1] * b[2] <= b[1] * a[2]          \* denominators are positive
RatAbsLeHalf(a) == 2 * Abs(a[1]) <= a[2]
RatAdd(a, b) == <<a[1] * b[2] + b[1] * a[2], a[2] * b[2]>>
RatSub(a, b) == <<a[1] * b[2] - b[1] * a[2], a[2] * b[2]>>
RatMul(a, b) == <<a[1] * b[1], a[2] * b[2]>>
Int2Rat(x) == <<x, 1>>

BetterC(type, a, b) == IF type = "min" THEN a < b ELSE a > b
\* the sample is left where it is (bit 3) when a neighbouring cost is NaN or the sample is not an extremum
Stopped(t, type) == t[1] = NaN \/ t[3] = NaN \/ BetterC(type, t[1], t[2]) \/ BetterC(type, t[3], t[2])

Sgn(type) == IF type = "min" THEN 1 ELSE -1
U0(t, type) == Sgn(type) * (t[1] - t[2])       \* >= 0 when not stopped
U2(t, type) == Sgn(type) * (t[3] - t[2])
Max2(a, b) == IF a >= b THEN a ELSE b

\* symmetric V through the three points, slopes +-a with a the steeper of the two sides
VfitShift(t, type) == IF Max2(U0(t, type), U2(t, type)) = 0 THEN <<0, 1>>
                      ELSE <<U0(t, type) - U2(t, type), 2 * Max2(U0(t, type), U2(t, type))>>
\* fitted cost: c1 -/+ (a/2) * (1 - |.|) ... written as the line of slope a through the higher neighbour:
\* y = c1 + sgn * (min(u0,u2) - max(u0,u2)) / 2   (apex of the symmetric V)
VfitCost(t, type) ==
   LET hi == Max2(U0(t, type), U2(t, type))
       lo == IF U0(t, type) <= U2(t, type) THEN U0(t, type) ELSE U2(t, type)
   IN <<2 * t[2] + Sgn(type) * (lo - hi), 2>>

\* parabola through the three points; vertex at (u0 - u2) / (2 (u0 + u2)); flat triple: no shift
QuadShift(t, type) == IF U0(t, type) + U2(t, type) = 0 THEN <<0, 1>>
                      ELSE <<U0(t, type) - U2(t, type), 2 * (U0(t, type) + U2(t, type))>>
\* vertex value: c1 - sgn * (u0 - u2)^2 / (8 (u0 + u2))
QuadCost(t, type) ==
   IF U0(t, type) + U2(t, type) = 0 THEN <<t[2], 1>>
   ELSE LET df == U0(t, type) - U2(t, type)  sm == U0(t, type) + U2(t, type)
        IN <<8 * sm * t[2] - Sgn(type) * df * df, 8 * sm>>

Shift(method, t, type) == IF method = "vfit" THEN VfitShift(t, type) ELSE QuadShift(t, type)
FitCost(method, t, type) == IF method = "vfit" THEN VfitCost(t, type) ELSE QuadCost(t, type)

\* never worse than the sample's cost
NotWorse(method, t, type) == IF type = "min" THEN RatLe(FitCost(method, t, type), Int2Rat(t[2]))
                             ELSE RatLe(Int2Rat(t[2]), FitCost(method, t, type))

AllInvalidBits == {0, 1, 6, 7, 8, 9}      \* PANDORA_MSK_PIXEL_INVALID
=============================================================================
