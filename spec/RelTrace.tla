------------------------------ MODULE RelTrace ------------------------------
(* Relational trace validation: each line holds the projected products of two real executions and the parameters    *)
(* of the relation that must hold between them; total verdicts.                                                       *)
EXTENDS Relations, PandoraParallel, Json, IOUtils, TLC

NaN == 1000000007
Cases == ndJsonDeserialize(IOEnv.TRACE_FILE)
One(S) == IF S = {} THEN <<>> ELSE CHOOSE y \in S : TRUE
Names(e) == 1..Len(e.names)

\* e.kind in {"crop", "flip", "equal"}: e.A, e.B are sequences of 2-D arrays (one per name in e.names)
Rel2D(e) ==
   LET bad(k) == CASE e.kind = "crop" -> CropBad(e, e.A[k], e.B[k])
                   [] e.kind = "flip" -> FlipBad(e, e.A[k], e.B[k])
                   [] OTHER -> EqualBad(e, e.A[k], e.B[k])
       failing == {k \in Names(e) : bad(k) # {}}
       nsel == IF e.kind = "crop" THEN Cardinality({x \in (1..e.rows) \X (1..e.cols) : ConeInside(e, x[1], x[2])}) ELSE e.rows * e.cols
   IN [failed |-> {e.names[k] : k \in failing}, compared |-> nsel,
       detail |-> IF failing = {} THEN <<>> ELSE LET k == CHOOSE j \in failing : TRUE  x == One(bad(k))
                                                 IN <<e.names[k], x[1], x[2], e.B[k][x[1]][x[2]]>>]
Rel3D(e) ==
   LET bad == IF e.kind = "slice" THEN SliceBad(e, e.A, e.B) ELSE GridBad(e, e.A, e.B, NaN)
   IN [failed |-> IF bad = {} THEN {} ELSE {e.kind}, compared |-> e.rows * e.cols * e.nd,
       detail |-> IF bad = {} THEN <<>> ELSE LET x == One(bad) IN <<x[1][1], x[1][2], x[2], e.A[x[1][1]][x[1][2]][x[2]]>>]
\* C09: every valid pixel's disparity lies in the requested interval (d3 = round(1000 * disparity); lo/hi integers or grids)
BitsOf(v) == {k \in 0..15 : (v \div (2 ^ k)) % 2 = 1}
RangeRel(e) ==
   LET validpx == {x \in (1..e.rows) \X (1..e.cols) : BitsOf(e.vm[x[1]][x[2]]) \cap {0, 1, 6, 7, 8, 9} = {}}
       lo(x) == IF e.per_pixel THEN e.lo[x[1]][x[2]] ELSE e.lo
       hi(x) == IF e.per_pixel THEN e.hi[x[1]][x[2]] ELSE e.hi
       bad == {x \in validpx : ~(e.d3[x[1]][x[2]] # NaN /\ 1000 * lo(x) - 1 <= e.d3[x[1]][x[2]] /\ e.d3[x[1]][x[2]] <= 1000 * hi(x) + 1)}
   IN [failed |-> (IF bad = {} THEN {} ELSE {e.clause}) \cup (IF e.attr # <<e.glo, e.ghi>> THEN {"stored_disparity_interval"} ELSE {}),
       compared |-> Cardinality(validpx),
       detail |-> IF bad = {} THEN <<>> ELSE LET x == One(bad) IN <<x[1], x[2], e.d3[x[1]][x[2]], lo(x), hi(x), e.vm[x[1]][x[2]]>>]
\* C18: the digests of the products of one (pipeline, input) under different thread counts / histories are all equal
DigestRel(e) ==
   LET ds == {e.digests[k] : k \in 1..Len(e.digests)}
   IN [failed |-> IF Cardinality(ds) = 1 THEN {} ELSE {"same_products"}, compared |-> Len(e.digests),
       detail |-> IF Cardinality(ds) = 1 THEN <<>> ELSE <<{k \in 1..Len(e.digests) : e.digests[k] # e.digests[1]}>>]
\* C18: footprint of one execution of a parallel kernel: iteration k reads e.iters[k].r and writes e.iters[k].w (cell numbers)
FootprintRel(e) ==
   LET R == [k \in 1..Len(e.iters) |-> {e.iters[k].r[j] : j \in 1..Len(e.iters[k].r)}]
       W == [k \in 1..Len(e.iters) |-> {e.iters[k].w[j] : j \in 1..Len(e.iters[k].w)}]
   IN [failed |-> IF RaceFreeFootprint(R, W) THEN {} ELSE {"race_free"}, compared |-> Len(e.iters),
       detail |-> IF RaceFreeFootprint(R, W) THEN <<>> ELSE LET c == One(Conflicts(R, W)) IN <<c[1], c[2], W[c[1]] \cap (W[c[2]] \cup R[c[2]])>>]
Verdict(e) == IF e.kind \in {"slice", "grid"} THEN Rel3D(e) ELSE IF e.kind = "range" THEN RangeRel(e)
              ELSE IF e.kind = "digest" THEN DigestRel(e) ELSE IF e.kind = "footprint" THEN FootprintRel(e) ELSE Rel2D(e)

VARIABLE i
Init == i = 1
Next == /\ i <= Len(Cases)
        /\ LET v == Verdict(Cases[i])
           IN IF PrintT(<<"V", ToJson([id |-> Cases[i].id, failed |-> v.failed, detail |-> v.detail, compared |-> v.compared])>>)
              THEN i' = i + 1 ELSE FALSE
=============================================================================
