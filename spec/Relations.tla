------------------------------ MODULE Relations ------------------------------
(***************************************************************************)
(* Relations between TWO executions (C08, C09, C13, C18).  Arrays are      *)
(* jointly rank-encoded by the harness (equal floats <=> equal integers,   *)
(* NaN = NaN sentinel), so equality below is bit-for-bit equality of the   *)
(* real values; flags are plain integers.                                  *)
(***************************************************************************)
EXTENDS Integers, Sequences, FiniteSets

\* ---- C13: cone of dependence and crop consistency ---------------------------------------------------------
\* e: R (rows of the whole image), C (cols), rows, cols (of the crop), r0, c0 (offset of the crop in the whole image),
\*    rr, rc (summed row / column radii of the pipeline), ext (max |disparity| of the interval), m (1, or 2 with cross-checking)
ConeInside(e, r, c) ==
   /\ (r - e.m * e.rr >= 1 \/ e.r0 = 0)
   /\ (r + e.m * e.rr <= e.rows \/ e.r0 + e.rows = e.R)
   /\ (c - e.m * (e.rc + e.ext) >= 1 \/ e.c0 = 0)
   /\ (c + e.m * (e.rc + e.ext) <= e.cols \/ e.c0 + e.cols = e.C)
CropBad(e, W, K) == {x \in (1..e.rows) \X (1..e.cols) :
                       ConeInside(e, x[1], x[2]) /\ K[x[1]][x[2]] # W[x[1] + e.r0][x[2] + e.c0]}
\* vertical flip: row r of the flipped run is row R + 1 - r of the original
FlipBad(e, A, B) == {x \in (1..e.rows) \X (1..e.cols) : B[x[1]][x[2]] # A[e.rows + 1 - x[1]][x[2]]}
EqualBad(e, A, B) == {x \in (1..e.rows) \X (1..e.cols) : B[x[1]][x[2]] # A[x[1]][x[2]]}
\* ---- C09: the volume of a narrower interval is a slice of the volume of a wider one ------------------------------
\* off = number of samples by which the narrow volume starts after the wide one
SliceBad(e, N, W) == {x \in ((1..e.rows) \X (1..e.cols)) \X (1..e.nd) :
                        N[x[1][1]][x[1][2]][x[2]] # W[x[1][1]][x[1][2]][x[2] + e.off]}
\* per-pixel grids: same cost inside the pixel's interval, NaN outside (first = scaled first sample, s = subpix)
GridBad(e, G, S, nan) == {x \in ((1..e.rows) \X (1..e.cols)) \X (1..e.nd) :
                        LET r == x[1][1]  c == x[1][2]  D == e.first + x[2] - 1
                        IN G[r][c][x[2]] # (IF 8 * D >= e.s * e.dmin8[r][c] /\ 8 * D <= e.s * e.dmax8[r][c] THEN S[r][c][x[2]] ELSE nan)}
=============================================================================
