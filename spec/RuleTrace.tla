----------------------------- MODULE RuleTrace -----------------------------
(***************************************************************************)
(* Trace validation for the rule tables: margins (C20) ...  One JSON line  *)
(* per recorded call of the real code; total verdicts.                     *)
(***************************************************************************)
EXTENDS Margins, PandoraInput, Multiscale, Json, IOUtils, TLC, Integers

Cases == ndJsonDeserialize(IOEnv.TRACE_FILE)

\* ---- margins (C20): e.pipe, rows, cols, stp; out.cum / out.non: sequences of <<name, l, u, r, d>>, out.glob: <<l,u,r,d>>
Uniform(t) == {<<x[1], x[2]>> : x \in {y \in t : y[2] = y[3] /\ y[3] = y[4] /\ y[4] = y[5]}}
SeqToSet(s) == {s[i] : i \in 1..Len(s)}
MarginsVerdict(e) ==
   LET cum == SeqToSet(e.out.cum)  non == SeqToSet(e.out.non)  g == e.out.glob
       allU == \A y \in cum \cup non : y[2] = y[3] /\ y[3] = y[4] /\ y[4] = y[5]
   IN [failed |-> (IF ~allU \/ Uniform(cum) # Cumulatives(e.pipe, e.rows, e.cols, e.stp) THEN {"cumulative_margins"} ELSE {})
                  \cup (IF ~allU \/ Uniform(non) # NonCumulatives(e.pipe, e.rows, e.cols, e.stp) THEN {"non_cumulative_margins"} ELSE {})
                  \cup (IF ~(\A k \in 1..4 : g[k] = Global(e.pipe, e.rows, e.cols, e.stp)) THEN {"global_margins"} ELSE {})
                  \cup (IF Len(e.out.cum) # Cardinality(cum) \/ Len(e.out.non) # Cardinality(non) THEN {"duplicate_keys"} ELSE {})
                  \cup (IF \E k \in 1..4 : g[k] < 0 THEN {"non_negative"} ELSE {})
                  \cup (IF ~e.out.same_after_rerun THEN {"pure_function_of_pipeline"} ELSE {}),
       detail |-> <<Cumulatives(e.pipe, e.rows, e.cols, e.stp), NonCumulatives(e.pipe, e.rows, e.cols, e.stp),
                    Global(e.pipe, e.rows, e.cols, e.stp)>>]

\* ---- dataset content (C16): e.img [band][row][col] stored samples (NaN / +inf / -inf sentinels), e.nodata, e.mask_given, e.inmask
NaNv == 1000000007
PInf == 1000000001
NInf == -1000000001
PixD(e) == (1..e.rows) \X (1..e.cols)
IsNd(e, r, c) == \E b \in 1..e.nb : e.img[b][r][c] = e.nodata
\* an infinite nodata value: the repository's own test-suite (test_inf_handling) documents that infinite samples of EITHER sign
\* are then no-data; the statement only says "+-inf included" - for the opposite-sign infinity both readings are accepted
OppositeInf(e, r, c) == e.nodata \in {PInf, NInf} /\ \E b \in 1..e.nb : e.img[b][r][c] = -e.nodata
SpecialNd(e) == e.nodata \in {NaNv, PInf, NInf}
ExpectedSample(e, b, r, c) == IF e.img[b][r][c] = e.nodata /\ SpecialNd(e) THEN -9999 * e.scale ELSE e.img[b][r][c]
ExpectedMask(e, r, c) == LET k == MaskClass(IsNd(e, r, c), e.inmask[r][c])
                         IN IF k = 0 THEN e.out.valid_pixels ELSE IF k = 1 THEN e.out.no_data_mask ELSE -1   \* -1: any other value
DatasetVerdict(e) ==
   LET anynd == \E x \in PixD(e) : IsNd(e, x[1], x[2])
       badS == {y \in (1..e.nb) \X PixD(e) : e.out.im[y[1]][y[2][1]][y[2][2]] # ExpectedSample(e, y[1], y[2][1], y[2][2])
                                               /\ ~(e.nodata \in {PInf, NInf} /\ e.img[y[1]][y[2][1]][y[2][2]] = -e.nodata /\ e.out.im[y[1]][y[2][1]][y[2][2]] = -9999 * e.scale)}
       hasvar == HasMaskVar(e.mask_given, anynd)
       badM == IF ~e.out.has_msk THEN {}
               ELSE {x \in PixD(e) : LET want == ExpectedMask(e, x[1], x[2])  got == e.out.msk[x[1]][x[2]]
                                      IN ~(OppositeInf(e, x[1], x[2]) /\ got = e.out.no_data_mask)
                                         /\ (IF want = -1 THEN got \in {e.out.valid_pixels, e.out.no_data_mask} ELSE got # want)}
   IN [failed |-> (IF badS # {} THEN {"samples_unchanged"} ELSE {})
                  \cup (IF e.out.has_msk # hasvar /\ ~(e.out.has_msk /\ \E x \in PixD(e) : OppositeInf(e, x[1], x[2])) THEN {"mask_variable_presence"} ELSE {})
                  \cup (IF badM # {} THEN {"mask_classes"} ELSE {})
                  \cup (IF ~e.out.dtype_ok THEN {"float32"} ELSE {})
                  \cup (IF ~e.out.bands_ok THEN {"band_names"} ELSE {})
                  \cup (IF ~e.out.coords_ok THEN {"coordinates"} ELSE {})
                  \cup (IF ~e.out.disp_ok THEN {"disparity_variable"} ELSE {})
                  \cup (IF e.out.no_data_img # (IF SpecialNd(e) /\ anynd THEN -9999 * e.scale ELSE e.nodata)
                            /\ ~(e.out.no_data_img = -9999 * e.scale /\ \E x \in PixD(e) : OppositeInf(e, x[1], x[2])) THEN {"no_data_img_attribute"} ELSE {}),
       detail |-> IF badS # {} THEN LET y == CHOOSE z \in badS : TRUE IN <<"sample", y[1], y[2][1], y[2][2], e.img[y[1]][y[2][1]][y[2][2]], e.out.im[y[1]][y[2][1]][y[2][2]]>>
                  ELSE IF badM # {} THEN LET x == CHOOSE z \in badM : TRUE IN <<"mask", x[1], x[2], e.inmask[x[1]][x[2]], IsNd(e, x[1], x[2]), e.out.msk[x[1]][x[2]]>>
                  ELSE <<>>]

\* ---- disparity range for the next pyramid level (C15) -------------------------------------------------------------------------
RangeVerdict(e) ==
   LET FR == Len(e.out.omin)  FC == Len(e.out.omin[1])
       bad == {x \in (1..FR) \X (1..FC) : ~FineOk(e, x[1], x[2], e.out.omin[x[1]][x[2]], e.out.omax[x[1]][x[2]])}
       shape == FR >= e.rows * e.sf - e.sf + 1 /\ FR <= e.rows * e.sf /\ FC >= e.cols * e.sf - e.sf + 1 /\ FC <= e.cols * e.sf
   IN [failed |-> (IF bad # {} THEN {"next_level_range"} ELSE {}) \cup (IF ~shape THEN {"next_level_shape"} ELSE {})
                  \cup (IF ~e.out.frame_ok THEN {"coarse_map_unchanged"} ELSE {}),
       detail |-> IF bad = {} THEN <<FR, FC>> ELSE LET x == CHOOSE y \in bad : TRUE
                                                  IN <<x[1], x[2], e.out.omin[x[1]][x[2]], e.out.omax[x[1]][x[2]],
                                                       {RangeOf(e, p[1], p[2]) : p \in Parents(e, x[1], x[2])}>>]

Verdict(e) == CASE e.step = "margins" -> MarginsVerdict(e)
                [] e.step = "disparity_range" -> RangeVerdict(e)
                [] e.step = "dataset" -> DatasetVerdict(e)
                [] OTHER -> [failed |-> {"unknown_step"}, detail |-> <<>>]

VARIABLE i
Init == i = 1
Next == /\ i <= Len(Cases)
        /\ LET v == Verdict(Cases[i])
           IN IF PrintT(<<"V", ToJson([id |-> Cases[i].id, failed |-> v.failed, detail |-> v.detail])>>)
              THEN i' = i + 1 ELSE FALSE
=============================================================================
