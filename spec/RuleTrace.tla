----------------------------- MODULE RuleTrace -----------------------------
(***************************************************************************)
(* Trace validation for the rule tables: margins (C20) ...  One JSON line  *)
(* per recorded call of the real code; total verdicts.                     *)
(***************************************************************************)
EXTENDS Margins, Json, IOUtils, TLC, Integers

Cases == ndJsonDeserialize(IOEnv.TRACE_FILE)

\* ---- margins (C20): e.pipe, rows, cols, stp; out.cum / out.non: sequences of <<name, l, u, r, d>>, out.glob: <<l,u,r,d>>
Uniform(t) == {<<x[1], x[2]>> : x \in {y \in t : y[2] = y[3] /\ y[3] = y[4] /\ y[4] = y[5]}}
SeqToSet(s) == {s[i] : i \in 1..Len(s)}
MarginsVerdict(e) ==
   LET cum == SeqToSet(e.out.cum)  non == SeqToSet(e.out.non)  g == e.out.glob
       allU == \A y \in cum \cup non : y[2] = y[3] /\ y[3] = y[4] /\ y[4] = y[5]
   IN [failed |-> (IF ~allU \/ Uniform(cum) # Cumulatives(e.pipe, e.rows, e.cols, e.stp) THEN {"cumulative_margins"} ELSE {})
                  \cup (IF ~allU \/ Uniform(non) # NonCumulatives(e.pipe, e.rows, e.cols, e.stp) THEN {"non_cumulative_margins"} ELSE {})
                  \cup (IF ~(\A k \in 1..4 : g[k] = Global(e.pipe, e.rows, e.cols, e.stp)) THEN {"global_margins"} ELSE {})
                  \cup (IF Len(e.out.cum) # Cardinality(cum) \/ Len(e.out.non) # Cardinality(non) THEN {"duplicate_keys"} ELSE {})
                  \cup (IF \E k \in 1..4 : g[k] < 0 THEN {"non_negative"} ELSE {})
                  \cup (IF ~e.out.same_after_rerun THEN {"pure_function_of_pipeline"} ELSE {}),
       detail |-> <<Cumulatives(e.pipe, e.rows, e.cols, e.stp), NonCumulatives(e.pipe, e.rows, e.cols, e.stp),
                    Global(e.pipe, e.rows, e.cols, e.stp)>>]

Verdict(e) == CASE e.step = "margins" -> MarginsVerdict(e)
                [] OTHER -> [failed |-> {"unknown_step"}, detail |-> <<>>]

VARIABLE i
Init == i = 1
Next == /\ i <= Len(Cases)
        /\ LET v == Verdict(Cases[i])
           IN IF PrintT(<<"V", ToJson([id |-> Cases[i].id, failed |-> v.failed, detail |-> v.detail])>>)
              THEN i' = i + 1 ELSE FALSE
=============================================================================
