----------------------------- MODULE Validation -----------------------------
(***************************************************************************)
(* Cross-checking (C07).  Disparities are exact rationals <<n, d>> in      *)
(* pixels (d > 0), or <<NaN, 1>>.  A map is [row][col].  The rounding rule *)
(* of "round" on exact halves is not fixed by the statement: both          *)
(* neighbours are accepted there (RoundSet), everywhere else it is unique. *)
(***************************************************************************)
EXTENDS Refinement

RIsNum(q) == q[1] # NaN /\ q[1] # 1000000009
Floor(q) == q[1] \div q[2]                        \* TLA+ \div floors for a positive divisor
IsInt(q) == q[1] % q[2] = 0
\* nearest integers of n/d: {floor} / {floor+1} / both on an exact half
RoundSet(q) == IF IsInt(q) THEN {Floor(q)}
               ELSE LET f == Floor(q)  twice == 2 * (q[1] - f * q[2])     \* 2 * fractional part * d
                    IN IF twice < q[2] THEN {f} ELSE IF twice > q[2] THEN {f + 1} ELSE {f, f + 1}
RatAbs(q) == <<Abs(q[1]), q[2]>>

\* e: rows, cols, gmin, gmax (integer disparity range of the checked map), thr (rational),
\*    dL, dR: [row][col] rationals
Corr(e, r, c)  == {c + k : k \in RoundSet(e.dL[r][c])}              \* candidate correspondents of (r, c)
InRight(e, q)  == q >= 1 /\ q <= e.cols
Dist(e, r, c, q) == RatAbs(RatAdd(e.dL[r][c], e.dR[r][q]))
Consistent(e, r, c, q) == InRight(e, q) /\ RIsNum(e.dR[r][q]) /\ RatLe(Dist(e, r, c, q), e.thr)
MayMismatch(e, r, c)  == \E d \in e.gmin..e.gmax : InRight(e, c + d) /\ RIsNum(e.dR[r][c + d]) /\ (-d) \in RoundSet(e.dR[r][c + d])
MustMismatch(e, r, c) == \E d \in e.gmin..e.gmax : InRight(e, c + d) /\ RIsNum(e.dR[r][c + d]) /\ RoundSet(e.dR[r][c + d]) = {-d}

\* the sets of bits the step may ADD to a previously valid pixel, for one choice q of the correspondent
AllowedAdd(e, r, c, q) ==
   IF Consistent(e, r, c, q) THEN {{}}
   ELSE IF ~InRight(e, q)
        \* correspondent outside the right image: an occlusion; the statement's d-test would call it a mismatch
        \* when some d matches - both readings are accepted in that sub-case
        THEN {{8}} \cup (IF MayMismatch(e, r, c) THEN {{9}} ELSE {})
        ELSE (IF MayMismatch(e, r, c) THEN {{9}} ELSE {}) \cup (IF ~MustMismatch(e, r, c) THEN {{8}} ELSE {})
=============================================================================
